#!/usr/bin/env python3
# validates MANIFEST.json and evidence/*.json against the schemas in /root/.vp
import json, glob, sys
import jsonschema
ok = True
m = json.load(open('/verif/MANIFEST.json'))
jsonschema.validate(m, json.load(open('/root/.vp/MANIFEST.schema.json')))
es = json.load(open('/root/.vp/EVIDENCE.schema.json'))
for f in sorted(glob.glob('/verif/evidence/*.json')):
    try:
        jsonschema.validate(json.load(open(f)), es)
    except Exception as e:
        ok = False
        print('INVALID', f, str(e)[:300])
props = [json.loads(l)['id'] for l in open('/verif/properties.jsonl')]
claimed = [c['property_id'] for c in m['checks']]
na = [c['property_id'] for c in m.get('not_applicable', [])]
for p in props:
    if p not in claimed and p not in na:
        print('property neither claimed nor not_applicable:', p); ok = False
print('ok' if ok else 'PROBLEMS')
sys.exit(0 if ok else 1)
