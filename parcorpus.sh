#!/bin/bash
# usage: parcorpus.sh [jobs] : every seeded change against its property check, in parallel (overlay; /repo untouched);
# prints one line per seed; for use with `vp run` after engine changes (refresh_seeds.py is the sequential, recording variant)
cd "$(dirname "$0")"; [ -x bin/gocv ] || ./build.sh
J=${1:-4}
ls seeded | xargs -P $J -I{} sh -c 'p=$(python3 -c "import json;m=json.load(open(\"seeded/{}/meta.json\"));print(m[\"property\"], m.get(\"expected\",\"\"))"); set -- $p; out=$(bin/gocv checkpatch $1 seeded/{}/patch.diff 2>&1); if echo "$out" | grep -q VIOLATION; then echo "{} $1 detected"; else echo "{} $1 NOT-DETECTED $2"; fi'
echo CORPUS-DONE
