#!/bin/bash
# usage: seedcheck.sh <prop> <worktree> <seed-dir> <pkgdir> <name>
# 1. confirms in the scratch worktree: tests pass with patch, demo fails with patch, demo passes without
# 2. applies the patch to /repo, runs the property check, restores /repo
# 3. stores the seed under /verif/seeded/<name>/
prop=$1; wt=$2; sd=$3; pkg=$4; name=$5
export GOFLAGS= GOPROXY=off GOSUMDB=off GOTOOLCHAIN=local
cd $wt || exit 2
git checkout -q -- $(git diff --name-only | grep -v _verif.go) 2>/dev/null
git apply $sd/patch.diff || { echo "PATCH DOES NOT APPLY"; exit 2; }
t1=$(go test -vet=off -count=1 ./$pkg/... 2>&1 | grep -cE "^(FAIL|---)")
cp $sd/demo_test.go $pkg/zz_seed_demo_test.go
d1=$(go test -vet=off -count=1 -run TestSeedDemo ./$pkg/ 2>&1 | grep -cE "^(FAIL|--- FAIL|panic)")
git apply -R $sd/patch.diff
d2=$(go test -vet=off -count=1 -run TestSeedDemo ./$pkg/ 2>&1 | grep -cE "^(FAIL|--- FAIL|panic)")
rm -f $pkg/zz_seed_demo_test.go
echo "existing-tests-failures-with-patch=$t1 demo-fails-with-patch=$d1 demo-fails-without=$d2"
cd /repo && git apply $sd/patch.diff || { echo "PATCH DOES NOT APPLY TO /repo"; exit 2; }
out=$(/verif/bin/gocv check $prop --no-evidence 2>&1)
git -C /repo checkout -- . 
echo "$out" | grep -E "^$prop |VIOLATION|discharged" | cut -c1-230 | head -6
mkdir -p /verif/seeded/$name
cp $sd/patch.diff $sd/demo_test.go /verif/seeded/$name/
python3 - "$sd/meta.json" "/verif/seeded/$name/meta.json" "$prop" "$t1" "$d1" "$d2" "$(echo "$out" | grep -c VIOLATION)" "$(echo "$out" | grep -E "^$prop " | cut -c1-200 | head -3)" <<'PY'
import json,sys
src,dst,prop,t1,d1,d2,nv,hits=sys.argv[1:9]
try: m=json.load(open(src))
except Exception: m={}
m['property']=prop
m['confirmed']={'existing_tests_fail_with_patch':int(t1),'demo_fails_with_patch':int(d1)>0,'demo_fails_without_patch':int(d2)>0}
m['detected_by_check']=int(nv)>0
m['failing_obligations']=hits.split('\n')
json.dump(m,open(dst,'w'),indent=1)
PY
git -C /repo status --short | grep -v '^??' | head
