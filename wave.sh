#!/bin/bash
# usage: wave.sh <tag> : confirm and check every seed of /tmp/seeds-<tag>, store as <prop>-<suffix><k>
tag=$1; prop=${tag%?}; suf=${tag: -1}; [ -n "$2" ] && prop=$2
for d in /tmp/seeds-$tag/*/; do
  k=$(basename $d)
  [ -f $d/patch.diff ] || continue
  pkg=$(python3 -c "import json;print(json.load(open('$d/meta.json')).get('pkg','').strip('/'))")
  echo "== $prop-$suf$k ($pkg)"
  /verif/seedcheck.sh $prop /tmp/wt-$tag $d $pkg $prop-$suf$k 2>&1 | grep -v "^VIOLATION" | tail -4 | cut -c1-230
done
