#!/bin/sh
# usage: mut.sh <prop> <file-in-repo> <sed-expr> : apply a mutation to /repo, run the check, restore
prop=$1; f=$2; expr=$3
cd /repo || exit 2
cp "$f" /tmp/mut_backup.go
sed -i "$expr" "$f"
if cmp -s "$f" /tmp/mut_backup.go; then echo "MUTATION DID NOT APPLY"; fi
/verif/bin/gocv check $prop --no-evidence 2>&1 | grep -E "^C[0-9]+ |VIOLATION|discharged" | cut -c1-220 | head -8
cp /tmp/mut_backup.go "$f"
git -C /repo status --short | grep -v '^??' | head -3
