#!/bin/bash
# usage: wave5.sh <tag> <suffix>: like wave.sh, but the property of each seed comes from its meta.json
tag=$1; suf=$2
for d in /tmp/seeds-$tag/*/; do
  k=$(basename $d)
  [ -f $d/patch.diff ] || continue
  pkg=$(python3 -c "import json;print(json.load(open('$d/meta.json')).get('pkg','').strip('/'))")
  prop=$(python3 -c "import json;print(json.load(open('$d/meta.json')).get('property',''))")
  n=1; while [ -d /verif/seeded/$prop-$suf$n ]; do n=$((n+1)); done
  echo "== $prop-$suf$n ($pkg) <- $tag/$k"
  /verif/seedcheck.sh $prop /tmp/wt-$tag $d $pkg $prop-$suf$n 2>&1 | grep -v "^VIOLATION" | tail -4 | cut -c1-230
done
