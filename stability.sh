#!/bin/sh
# usage: stability.sh [rounds] : runs every claimed quick check several times; prints any run that is not clean
n=${1:-3}
cd /verif || exit 2
props=$(python3 -c "import json; print(' '.join(c['property_id'] for c in json.load(open('MANIFEST.json'))['checks']))" 2>/dev/null)
[ -z "$props" ] && props="C02 C03 C06 C07 C08 C09 C10 C11 C12 C14 C15 C16 C17 C18 C19 C20"
bad=0
for r in $(seq 1 $n); do
  for p in $props; do
    out=$(bin/gocv check $p --no-evidence 2>&1 | tail -1)
    case "$out" in
      *" 0 violations"*) ;;
      *) echo "round $r: $out"; bad=$((bad+1));;
    esac
    echo "$r $p $(echo "$out" | sed 's/.*violations, //')" >> /tmp/stability.times
  done
done
echo "stability: $n rounds, $bad unclean runs"
