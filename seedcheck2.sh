#!/bin/bash
# usage: seedcheck2.sh <worktree> <seed-dir> <suffix>
# like seedcheck.sh, but /repo is never touched (bin/gocv checkpatch works through an overlay), so several can run at once.
# property, package come from the seed's meta.json; the seed is stored as /verif/seeded/<prop>-<suffix><n>
wt=$1; sd=$2; suf=$3
export GOFLAGS= GOPROXY=off GOSUMDB=off GOTOOLCHAIN=local
prop=$(python3 -c "import json;print(json.load(open('$sd/meta.json')).get('property',''))")
pkg=$(python3 -c "import json;print(json.load(open('$sd/meta.json')).get('pkg','').strip('/'))")
cd $wt || exit 2
git checkout -q -- $(git diff --name-only | grep -v _verif.go) 2>/dev/null
git apply $sd/patch.diff || { echo "PATCH DOES NOT APPLY"; exit 2; }
go build ./... || { echo "DOES NOT BUILD"; git apply -R $sd/patch.diff; exit 2; }
t1=$(go test -vet=off -count=1 ./$pkg/... 2>&1 | grep -cE "^(FAIL|---)")
cp $sd/demo_test.go $pkg/zz_seed_demo_test.go
d1=$(timeout 300 go test -vet=off -count=1 -run TestSeedDemo ./$pkg/ 2>&1 | grep -cE "^(FAIL|--- FAIL|panic)")
git apply -R $sd/patch.diff
d2=$(timeout 300 go test -vet=off -count=1 -run TestSeedDemo ./$pkg/ 2>&1 | grep -cE "^(FAIL|--- FAIL|panic)")
rm -f $pkg/zz_seed_demo_test.go
out=$(cd /verif && bin/gocv checkpatch $prop $sd/patch.diff 2>&1)
(
flock 9
n=1; while [ -d /verif/seeded/$prop-$suf$n ]; do n=$((n+1)); done
name=$prop-$suf$n
mkdir -p /verif/seeded/$name
cp $sd/patch.diff $sd/demo_test.go /verif/seeded/$name/
echo "== $name <- $sd: existing-tests-failures-with-patch=$t1 demo-fails-with-patch=$d1 demo-fails-without=$d2"
echo "$out" | grep -E "^$prop |VIOLATION|BOUNDED|discharged" | grep -v "^VIOLATION" | cut -c1-230 | head -6
python3 - "$sd/meta.json" "/verif/seeded/$name/meta.json" "$prop" "$t1" "$d1" "$d2" "$(echo "$out" | grep -c VIOLATION)" "$(echo "$out" | grep -E "^$prop " | cut -c1-200 | head -3)" <<'PY'
import json,sys
src,dst,prop,t1,d1,d2,nv,hits=sys.argv[1:9]
try: m=json.load(open(src))
except Exception: m={}
m['property']=prop
m['confirmed']={'existing_tests_fail_with_patch':int(t1),'demo_fails_with_patch':int(d1)>0,'demo_fails_without_patch':int(d2)>0}
m['detected_by_check']=int(nv)>0
m['failing_obligations']=hits.split('\n')
json.dump(m,open(dst,'w'),indent=1)
PY
) 9>/tmp/seedcheck2.lock
