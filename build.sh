#!/bin/sh
# Builds bin/gocv offline from /verif/gocv (x/tools v0.29.0 from the module cache).
set -e
cd "$(dirname "$0")/gocv"
export GOFLAGS=-mod=mod GOPROXY=off GOSUMDB=off GOTOOLCHAIN=local
go build -o ../bin/gocv .
