#!/bin/bash
# usage: refcheck.sh <tag> "<props>" : applies each behaviour-preserving refactoring of /tmp/refac-<tag> to /repo,
# runs the given property checks and reports alarms (= false alarms); /repo is restored after each
tag=$1; props=$2
for d in /tmp/refac-$tag/*/; do
  k=$(basename $d); [ -f $d/patch.diff ] || continue
  kind=$(python3 -c "import json;m=json.load(open('$d/meta.json'));print(m.get('kind','?'),'|',m.get('summary','')[:110])" 2>/dev/null)
  if ! git -C /repo apply $d/patch.diff 2>/dev/null; then echo "R$tag-$k: PATCH DOES NOT APPLY"; continue; fi
  res=""
  for p in $props; do
    out=$(/verif/bin/gocv check $p --no-evidence 2>&1)
    if echo "$out" | grep -q "VIOLATION"; then res="$res $p:ALARM"; echo "$out" | grep -E "^$p " | cut -c1-170 | head -3 | sed "s/^/      /"; fi
  done
  git -C /repo checkout -- .
  echo "R$tag-$k [$kind] ->${res:- clean}"
done
