#!/usr/bin/env python3
"""Re-runs every seeded change against its property check (through an in-memory overlay: /repo is not touched)
and refreshes detected_by_check / failing_obligations in meta.json."""
import json, subprocess, glob, os, sys
only = sys.argv[1:] 
for d in sorted(glob.glob('/verif/seeded/*')):
    name=os.path.basename(d)
    if only and not any(name.startswith(o) for o in only): continue
    m=json.load(open(d+'/meta.json'))
    prop=m['property']
    r=subprocess.run(['/verif/bin/gocv','checkpatch',prop,d+'/patch.diff'],capture_output=True,text=True)
    out=r.stdout
    if r.returncode==2 and 'patch failed' in (r.stderr+r.stdout):
        print(name,'PATCH DOES NOT APPLY'); continue
    hits=[l[:200] for l in out.splitlines() if l.startswith(prop+' ')][:4]
    det='VIOLATION' in out
    was=m.get('detected_by_check')
    if was is False and det:
        m['history']='missed by the check when first produced; detected after the check was strengthened'
    m['detected_by_check']=det
    m['failing_obligations']=hits
    json.dump(m,open(d+'/meta.json','w'),indent=1)
    print(name,prop,'detected' if det else ('NOT DETECTED' if m.get('expected')!='missed-out-of-scope' else 'out of scope'), '|', (hits[0][:110] if hits else ''))
