#!/usr/bin/env python3
"""Runs every stored behaviour-preserving rewrite (refactorings/, refactorings_free/) against the checks of its
package through an in-memory overlay and records the outcome (proved / bounded / alarm) in meta.json."""
import json, subprocess, glob, os, sys
dirs = sys.argv[1:] or ['refactorings', 'refactorings_free']
tot = {'proved':0,'bounded':0,'alarm':0}
from concurrent.futures import ThreadPoolExecutor
def one(d):
    m = json.load(open(d+'/meta.json'))
    res = 'proved'; notes = []
    for prop in m['properties']:
        r = subprocess.run(['/verif/bin/gocv','checkpatch',prop,d+'/patch.diff'],capture_output=True,text=True)
        out = r.stdout
        if 'VIOLATION' in out or r.returncode not in (0,):
            res = 'alarm'; notes += [l[:180] for l in out.splitlines() if l.startswith(prop+' ')][:2]
        elif 'BOUNDED:' in out and res != 'alarm':
            res = 'bounded'; notes += [l[:200] for l in out.splitlines() if l.startswith('BOUNDED:')][:2]
    m['result'] = res; m['result_notes'] = notes
    json.dump(m, open(d+'/meta.json','w'), indent=1)
    return d, res, notes
ds = [d for base in dirs for d in sorted(glob.glob('/verif/%s/*' % base))]
with ThreadPoolExecutor(int(os.environ.get('JOBS', '4'))) as ex:
    for d, res, notes in ex.map(one, ds):
        tot[res] += 1
        print(os.path.basename(d), res, '|', (notes[0][:120] if notes else ''), flush=True)
print(tot)
