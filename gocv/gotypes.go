package main

// Mapping of Go types to SMT sorts and flattened "leaves".

import (
	"fmt"
	"go/types"
	"math/big"
	"strings"
)

type Mode int

const (
	ModeInt Mode = iota
	ModeBV
)

// TEnv carries the arithmetic mode, the declarations and the current type
// substitution for type parameters.
type TEnv struct {
	mode  Mode
	d     *Decls
	subst map[*types.TypeParam]types.Type
}

func (e *TEnv) IntS() Sort {
	if e.mode == ModeBV {
		return SBV64
	}
	return SInt
}

// resolve applies the type-parameter substitution at the top level.
func (e *TEnv) resolve(t types.Type) types.Type {
	for i := 0; i < 10; i++ {
		tp, ok := t.(*types.TypeParam)
		if !ok {
			return t
		}
		r, ok := e.subst[tp]
		if !ok {
			return t
		}
		t = r
	}
	return t
}

func qualifier(p *types.Package) string {
	if p == nil {
		return ""
	}
	return p.Name()
}

// typeKey is a canonical name for a type under the current substitution.
func (e *TEnv) typeKey(t types.Type) string {
	t = e.resolve(t)
	if el, ok := isSetType(t); ok {
		return "set[" + e.typeKey(el) + "]"
	}
	if el, ok := isSeqType(t); ok {
		return "seq[" + e.typeKey(el) + "]"
	}
	switch tt := t.(type) {
	case *types.Named:
		s := ""
		if tt.Obj().Pkg() != nil {
			s = tt.Obj().Pkg().Name() + "."
		}
		s += tt.Obj().Name()
		if ta := tt.TypeArgs(); ta != nil && ta.Len() > 0 {
			parts := []string{}
			allParams := true
			for i := 0; i < ta.Len(); i++ {
				if _, ok := e.resolve(ta.At(i)).(*types.TypeParam); !ok {
					allParams = false
				}
				parts = append(parts, e.typeKey(ta.At(i)))
			}
			// inside generic code (all arguments are still type parameters) the
			// instance is named like the generic type itself
			if !allParams {
				s += "[" + strings.Join(parts, ",") + "]"
			}
		}
		return s
	case *types.Alias:
		return e.typeKey(types.Unalias(tt))
	case *types.Pointer:
		return "*" + e.typeKey(tt.Elem())
	case *types.Slice:
		return "[]" + e.typeKey(tt.Elem())
	case *types.Array:
		return fmt.Sprintf("[%d]%s", tt.Len(), e.typeKey(tt.Elem()))
	case *types.Map:
		return "map[" + e.typeKey(tt.Key()) + "]" + e.typeKey(tt.Elem())
	case *types.TypeParam:
		return "$" + tt.Obj().Name()
	case *types.Basic:
		if tt.Kind() == types.Uint8 {
			return "byte"
		}
		return tt.Name()
	case *types.Chan:
		return "chan " + e.typeKey(tt.Elem())
	case *types.Signature:
		return "func"
	case *types.Interface:
		if tt.NumMethods() == 0 {
			return "any"
		}
		return "iface"
	case *types.Struct:
		parts := []string{}
		for i := 0; i < tt.NumFields(); i++ {
			parts = append(parts, tt.Field(i).Name()+" "+e.typeKey(tt.Field(i).Type()))
		}
		return "struct{" + strings.Join(parts, ";") + "}"
	}
	return types.TypeString(t, qualifier)
}

func symSafe(s string) string {
	// SMT quoted symbols may contain anything but | and \
	s = strings.ReplaceAll(s, "|", "!")
	s = strings.ReplaceAll(s, "\\", "!")
	return "|" + s + "|"
}

// isOpaqueNamed reports whether a named struct type from outside the module
// is treated as an opaque scalar.
func isOpaqueNamed(t types.Type) bool {
	n, ok := t.(*types.Named)
	if !ok {
		return false
	}
	if _, ok := n.Underlying().(*types.Struct); !ok {
		return false
	}
	p := n.Obj().Pkg()
	if p == nil {
		return false
	}
	if transparentTypes[p.Path()+"."+n.Obj().Name()] {
		return false
	}
	return !strings.HasPrefix(p.Path(), modulePath)
}

// transparentTypes: external struct types declared `transparent` in a contract file
var transparentTypes = map[string]bool{}

const modulePath = "github.com/acquirecloud/golibs"

type Leaf struct {
	Path string
	Sort Sort
	Type types.Type // Go type of the leaf (for range constraints); nil for synthetic leaves
	Role string     // "", "arr", "off", "len", "cap"
}

func (e *TEnv) basicSort(b *types.Basic) Sort {
	switch b.Kind() {
	case types.Bool, types.UntypedBool:
		return SBool
	case types.String, types.UntypedString:
		return e.d.Sort("GoString")
	case types.Uint8:
		return SBV8
	case types.Int, types.Int64, types.Uint, types.Uint64, types.Uintptr, types.UntypedInt, types.UntypedRune:
		if e.mode == ModeBV {
			return SBV64
		}
		return SInt
	case types.Int32, types.Uint32:
		if e.mode == ModeBV {
			return SBV32
		}
		return SInt
	case types.Int16, types.Uint16:
		if e.mode == ModeBV {
			return SBV16
		}
		return SInt
	case types.Int8:
		if e.mode == ModeBV {
			return SBV8
		}
		return SInt
	case types.UnsafePointer:
		return SRef
	case types.Float32, types.Float64, types.UntypedFloat:
		return e.d.Sort("Float")
	case types.UntypedNil:
		return SRef
	}
	panic(oos("unsupported basic type " + b.String()))
}

// intInfo returns width and signedness for integer types.
func intInfo(t types.Type) (w int, signed bool, ok bool) {
	b, isB := t.Underlying().(*types.Basic)
	if !isB {
		return 0, false, false
	}
	switch b.Kind() {
	case types.Int, types.Int64, types.UntypedInt, types.UntypedRune:
		return 64, true, true
	case types.Uint, types.Uint64, types.Uintptr:
		return 64, false, true
	case types.Int32:
		return 32, true, true
	case types.Uint32:
		return 32, false, true
	case types.Int16:
		return 16, true, true
	case types.Uint16:
		return 16, false, true
	case types.Int8:
		return 8, true, true
	case types.Uint8:
		return 8, false, true
	}
	return 0, false, false
}

func intRange(w int, signed bool) (lo, hi *big.Int) {
	if signed {
		hi = new(big.Int).Lsh(big.NewInt(1), uint(w-1))
		lo = new(big.Int).Neg(hi)
		hi = hi.Sub(hi, big.NewInt(1))
		return
	}
	lo = big.NewInt(0)
	hi = new(big.Int).Lsh(big.NewInt(1), uint(w))
	hi = hi.Sub(hi, big.NewInt(1))
	return
}

// scalarSort returns the sort for a type that has exactly one leaf.
func (e *TEnv) scalarSort(t types.Type) Sort {
	ls := e.leaves(t)
	if len(ls) != 1 {
		panic(oos("scalarSort of composite type " + t.String()))
	}
	return ls[0].Sort
}

// seq types: spec-only sequence types (ghost fields), one leaf of array sort
var seqTypes = map[string]*types.Named{}

func seqType(elem types.Type, key string) *types.Named {
	if n, ok := seqTypes[key]; ok {
		return n
	}
	tn := types.NewTypeName(0, nil, "seq["+key+"]", nil)
	n := types.NewNamed(tn, types.NewSlice(elem), nil)
	seqTypes[key] = n
	return n
}

func setType(elem types.Type, key string) *types.Named {
	k := "set:" + key
	if n, ok := seqTypes[k]; ok {
		return n
	}
	tn := types.NewTypeName(0, nil, "set["+key+"]", nil)
	n := types.NewNamed(tn, types.NewSlice(elem), nil)
	seqTypes[k] = n
	return n
}

func isSetType(t types.Type) (types.Type, bool) {
	n, ok := t.(*types.Named)
	if !ok || n.Obj().Pkg() != nil || !strings.HasPrefix(n.Obj().Name(), "set[") {
		return nil, false
	}
	return n.Underlying().(*types.Slice).Elem(), true
}

func isSeqType(t types.Type) (types.Type, bool) {
	if el, ok := isSetType(t); ok {
		return el, true
	}
	n, ok := t.(*types.Named)
	if !ok || n.Obj().Pkg() != nil || !strings.HasPrefix(n.Obj().Name(), "seq[") {
		return nil, false
	}
	return n.Underlying().(*types.Slice).Elem(), true
}

func (e *TEnv) leaves(t types.Type) []Leaf {
	t = e.resolve(t)
	if el, ok := isSetType(t); ok {
		return []Leaf{{Path: "", Sort: ArraySort(e.scalarSort(el), SBool), Type: t}}
	}
	if el, ok := isSeqType(t); ok {
		return []Leaf{{Path: "", Sort: ArraySort(e.IntS(), e.scalarSort(el)), Type: t}}
	}
	if isOpaqueNamed(t) {
		return []Leaf{{Path: "", Sort: e.d.Sort("U_" + sanitizeName(e.typeKey(t))), Type: t}}
	}
	switch tt := t.Underlying().(type) {
	case *types.Basic:
		return []Leaf{{Path: "", Sort: e.basicSort(tt), Type: t}}
	case *types.Pointer, *types.Map, *types.Chan, *types.Signature, *types.Interface:
		return []Leaf{{Path: "", Sort: SRef, Type: t}}
	case *types.Slice:
		is := e.IntS()
		return []Leaf{
			{Path: ".arr", Sort: SRef, Type: t, Role: "arr"},
			{Path: ".off", Sort: is, Type: t, Role: "off"},
			{Path: ".len", Sort: is, Type: t, Role: "len"},
			{Path: ".cap", Sort: is, Type: t, Role: "cap"},
		}
	case *types.Struct:
		var out []Leaf
		for i := 0; i < tt.NumFields(); i++ {
			f := tt.Field(i)
			for _, l := range e.leaves(f.Type()) {
				l.Path = "." + f.Name() + l.Path
				out = append(out, l)
			}
		}
		return out
	case *types.Array:
		// arrays embedded in structs have storage identity derived from the owner; no leaves.
		return nil
	case *types.Tuple:
		var out []Leaf
		for i := 0; i < tt.Len(); i++ {
			for _, l := range e.leaves(tt.At(i).Type()) {
				l.Path = fmt.Sprintf(".%d%s", i, l.Path)
				out = append(out, l)
			}
		}
		return out
	}
	if tp, ok := t.(*types.TypeParam); ok {
		return []Leaf{{Path: "", Sort: e.d.Sort("T_" + sanitizeName(tp.Obj().Name())), Type: t}}
	}
	panic(oos("unsupported type " + t.String()))
}

func sanitizeName(s string) string {
	var sb strings.Builder
	for _, r := range s {
		if (r >= 'a' && r <= 'z') || (r >= 'A' && r <= 'Z') || (r >= '0' && r <= '9') || r == '_' {
			sb.WriteRune(r)
		} else {
			sb.WriteString("_")
		}
	}
	return sb.String()
}

// zeroTerm returns the zero value of a leaf sort/type.
func (e *TEnv) zeroLeaf(l Leaf) *Term {
	if l.Sort.IsArray() {
		_, es := l.Sort.ArrayParts()
		return ConstArray(l.Sort, e.zeroLeaf(Leaf{Sort: es}))
	}
	switch {
	case l.Sort == SBool:
		return TFalse
	case l.Sort == SInt: // also SRef
		return IntLit(0)
	case l.Sort.IsBV():
		return BVLit64(0, l.Sort.BVWidth())
	}
	name := "zero_" + sanitizeName(string(l.Sort))
	return e.d.Const(name, l.Sort)
}

// out-of-subset error
type oosErr struct{ msg string }

func (o oosErr) Error() string { return "out-of-subset: " + o.msg }
func oos(msg string) oosErr   { return oosErr{msg} }
