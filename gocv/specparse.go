package main

// Parsing of contract files: `//@` lines in guarded Go files inside /repo
// (zz_contracts_verif.go) and in /verif/contracts/*.spec (library contracts).

import (
	"go/types"
	"fmt"
	"go/ast"
	"go/parser"
	"go/token"
	"os"
	"path/filepath"
	"sort"
	"strconv"
	"strings"
)

type Clause struct {
	Expr  ast.Expr
	Src   string
	Tags  []string // property tags; empty = all
	Label string
	File  string
	Line  int
}

func (c *Clause) appliesTo(prop string) bool {
	if prop == "" || len(c.Tags) == 0 {
		return true
	}
	for _, t := range c.Tags {
		if t == prop {
			return true
		}
	}
	return false
}

type LoopSpec struct {
	Invariants []*Clause
	Decreases  *Clause
	Unroll     int
	Modifies   []*Clause
}

type GhostVar struct {
	Name string
	Type ast.Expr
}

type FuncSpec struct {
	Key         string // canonical key: pkgpath.(*Recv).Name or pkgpath.Name
	PkgPath     string
	Name        string
	RecvName    string
	ParamNames  []string
	ResultNames []string
	Header      string
	Props       []string
	Mode        Mode
	Inline      bool
	Assumed     bool
	Pure        bool
	Requires    []*Clause
	Ensures     []*Clause
	Modifies    []*Clause
	Panics      *Clause
	Ghosts      []GhostVar
	Loops       map[int]*LoopSpec
	Lemma       bool // lemma harness: verified, no callers
	File        string
	Line        int
	Opaque      map[string]bool // spec functions kept uninterpreted while verifying this function
	TimeoutS    int
	Fresh       []string // names of results declared fresh
	NoFrame     bool
	DeadReturns map[int]bool // return sites (ordinals) the contract declares unreachable: they must then really be unreachable
	MayPanic    bool // explicit panic(..) statements are allowed behaviour (no obligation); listed in the evidence
	Variant     string // property this contract variant is for ("" = base contract)
	Invokes     []string // assumed higher-order function: the function passed as this parameter is called once (synchronously, non-nil arguments) during the call
	UnderLock   string // the caller must hold this monitor lock (field path, e.g. ".lock"); held on entry, still held on return
	GhostExit   []*GhostAssign
	Devirt      []ast.Expr // concrete types to which interface calls in this function are resolved
}

type GhostAssign struct {
	LHS  ast.Expr
	RHS  ast.Expr
	Src  string
	Tags []string
	Line int
}

type SpecFunc struct {
	PkgPath  string
	Name     string // "n" or "(ringBuffer).n"
	RecvName string
	Params   []string
	ParamTys []ast.Expr
	RetTy    ast.Expr
	Body     ast.Expr
	Src      string
	BVOnly   bool
	RecvTParams []string // names of the receiver's type parameters in the header
	Trig     bool // applied as an uninterpreted function with a triggered definitional axiom
	Rec      bool // recursive: kept uninterpreted, body given as axiom
	File     string
	Line     int
}

type Axiom struct {
	PkgPath string
	Name    string
	Params  []string
	ParamTy []ast.Expr
	Body    *Clause
}

type GhostField struct {
	PkgPath  string
	TypeName string
	Field    string
	Type     ast.Expr
	Alias    string // "pkgpath.Type.field" of the ghost field this one aliases
}

type GhostGlobal struct {
	PkgPath string
	Name    string
	Type    ast.Expr
}

type MonitorSpec struct {
	PkgPath  string
	TypeName string
	RecvName string
	Lock     string   // field name of the mutex
	Guards   []string // guarded field names ("f" of the monitor type, or "Type.f" for every object of Type)
	Inv      *Clause  // monitor invariant over RecvName: assumed at Lock, asserted at Unlock
	Assuming *Clause  // resource assumption: assumed at Lock, never asserted (listed as trusted)
	// rely/guarantee with ownership by allocation: Guarantee is a two-state predicate between
	// atLock(..) and the state at Unlock, asserted at every Unlock ("I only touch what I own");
	// Rely is a two-state predicate between atUnlock(..) and the state at the next Lock, assumed
	// after the havoc ("what I own is untouched by the others").  That every other thread's
	// guarantee implies this thread's rely is a paper argument (ownership = fresh() is exclusive).
	Rely      *Clause
	Guarantee *Clause
	Only      string // property this monitor declaration is limited to ("" = all)
}

// For returns the contract of a function for the given property: a variant
// declared with `variant <prop> func ...` wins over the base contract.
func (sp *Specs) For(key, prop string) *FuncSpec {
	if prop != "" {
		if v := sp.Funcs[key+"@"+prop]; v != nil {
			return v
		}
	}
	return sp.Funcs[key]
}

type GlobalSpec struct {
	PkgPath   string
	Name      string
	Immutable bool
	NonNil    bool
	Sentinel  bool
}

type Specs struct {
	Funcs      map[string]*FuncSpec
	SpecFuncs  map[string]*SpecFunc // key: pkgpath.name or pkgpath.(Recv).name
	Axioms     []*Axiom
	Ghosts     map[string]*GhostField // key pkgpath.Type.field
	Globals    map[string]*GlobalSpec
	GGlobals   map[string]*GhostGlobal
	Monitors   map[string]*MonitorSpec // key pkgpath.Type
	Files      []string
	TrustedTxt []string
}

func NewSpecs() *Specs {
	return &Specs{Funcs: map[string]*FuncSpec{}, SpecFuncs: map[string]*SpecFunc{}, Ghosts: map[string]*GhostField{}, Globals: map[string]*GlobalSpec{}, GGlobals: map[string]*GhostGlobal{}, Monitors: map[string]*MonitorSpec{}}
}

var clauseKeywords = map[string]bool{
	"func": true, "assumed": true, "spec": true, "pred": true, "props": true, "arith": true,
	"inline": true, "pure": true, "requires": true, "ensures": true, "modifies": true, "panics": true,
	"variant": true, "ghost": true, "loop": true, "invariant": true, "decreases": true, "unroll": true, "lemma": true,
	"axiom": true, "package": true, "global": true, "trusted": true, "ghostfield": true, "opaque": true,
	"timeout": true, "noframe": true, "maypanic": true, "deadreturn": true, "underlock": true, "invokes": true, "end": true, "ghostglobal": true, "monitor": true, "ghostexit": true, "devirt": true, "transparent": true,
}

type specLine struct {
	text string
	line int
}

// extractSpecLines pulls the `//@` lines out of a file.
func extractSpecLines(content string) []specLine {
	var out []specLine
	for i, ln := range strings.Split(content, "\n") {
		t := strings.TrimSpace(ln)
		if strings.HasPrefix(t, "//@") {
			out = append(out, specLine{strings.TrimSpace(t[3:]), i + 1})
		} else if strings.HasPrefix(t, "// @") {
			out = append(out, specLine{strings.TrimSpace(t[4:]), i + 1})
		}
	}
	return out
}

// rewriteImplies turns `a ==> b` into implies(a, b) at every nesting level.
func rewriteImplies(s string) string {
	// find top-level ==>
	depth := 0
	inStr := false
	for i := 0; i < len(s); i++ {
		c := s[i]
		if inStr {
			if c == '\\' {
				i++
			} else if c == '"' {
				inStr = false
			}
			continue
		}
		switch c {
		case '"':
			inStr = true
		case '(', '[', '{':
			depth++
		case ')', ']', '}':
			depth--
		case '=':
			if depth == 0 && strings.HasPrefix(s[i:], "==>") {
				return "implies(" + rewriteImplies(s[:i]) + ", " + rewriteImplies(s[i+3:]) + ")"
			}
		}
	}
	// no top-level implication: descend into bracketed groups, splitting on commas
	var sb strings.Builder
	i := 0
	for i < len(s) {
		c := s[i]
		if c == '"' {
			j := i + 1
			for j < len(s) && s[j] != '"' {
				if s[j] == '\\' {
					j++
				}
				j++
			}
			sb.WriteString(s[i:min(j+1, len(s))])
			i = j + 1
			continue
		}
		if c == '(' || c == '[' {
			// find matching close
			d := 0
			j := i
			for ; j < len(s); j++ {
				if s[j] == '(' || s[j] == '[' || s[j] == '{' {
					d++
				} else if s[j] == ')' || s[j] == ']' || s[j] == '}' {
					d--
					if d == 0 {
						break
					}
				}
			}
			if j >= len(s) {
				sb.WriteString(s[i:])
				break
			}
			inner := s[i+1 : j]
			parts := splitTopLevel(inner, ',')
			for k, p := range parts {
				parts[k] = rewriteImplies(p)
			}
			sb.WriteByte(c)
			sb.WriteString(strings.Join(parts, ","))
			sb.WriteByte(s[j])
			i = j + 1
			continue
		}
		sb.WriteByte(c)
		i++
	}
	return sb.String()
}

func splitTopLevel(s string, sep byte) []string {
	var parts []string
	depth := 0
	start := 0
	inStr := false
	for i := 0; i < len(s); i++ {
		c := s[i]
		if inStr {
			if c == '\\' {
				i++
			} else if c == '"' {
				inStr = false
			}
			continue
		}
		switch c {
		case '"':
			inStr = true
		case '(', '[', '{':
			depth++
		case ')', ']', '}':
			depth--
		default:
			if c == sep && depth == 0 {
				parts = append(parts, s[start:i])
				start = i + 1
			}
		}
	}
	parts = append(parts, s[start:])
	return parts
}

func parseSpecExpr(src string) (ast.Expr, error) {
	return parser.ParseExpr(rewriteImplies(src))
}

func parseClause(text, file string, line int) (*Clause, error) {
	c := &Clause{File: file, Line: line}
	t := strings.TrimSpace(text)
	// optional [C15,C16] tags
	if strings.HasPrefix(t, "[") {
		end := strings.Index(t, "]")
		if end > 0 {
			inner := t[1:end]
			ok := true
			for _, p := range strings.Split(inner, ",") {
				p = strings.TrimSpace(p)
				if len(p) < 2 || p[0] != 'C' {
					ok = false
				}
			}
			if ok {
				for _, p := range strings.Split(inner, ",") {
					c.Tags = append(c.Tags, strings.TrimSpace(p))
				}
				t = strings.TrimSpace(t[end+1:])
			}
		}
	}
	// optional label: `name: expr` where name is identifier chars with dashes
	if i := strings.Index(t, ":"); i > 0 && i < 40 {
		lab := t[:i]
		isLab := true
		for _, r := range lab {
			if !((r >= 'a' && r <= 'z') || (r >= 'A' && r <= 'Z') || (r >= '0' && r <= '9') || r == '-' || r == '_') {
				isLab = false
			}
		}
		if isLab && !strings.HasPrefix(t[i:], ":=") {
			c.Label = lab
			t = strings.TrimSpace(t[i+1:])
		}
	}
	c.Src = t
	e, err := parseSpecExpr(t)
	if err != nil {
		return nil, fmt.Errorf("%s:%d: cannot parse %q: %v", file, line, t, err)
	}
	c.Expr = e
	return c, nil
}

// parseFuncHeader parses "func (r *T[V]) Name(a, b int) (x int, err error)".
func parseFuncHeader(hdr string) (*ast.FuncDecl, error) {
	src := "package p\n" + hdr + "\n"
	f, err := parser.ParseFile(token.NewFileSet(), "hdr.go", src, 0)
	if err != nil {
		return nil, err
	}
	for _, d := range f.Decls {
		if fd, ok := d.(*ast.FuncDecl); ok {
			return fd, nil
		}
	}
	return nil, fmt.Errorf("no func decl in %q", hdr)
}

func recvTypeName(e ast.Expr) (name string, ptr bool) {
	switch t := e.(type) {
	case *ast.StarExpr:
		n, _ := recvTypeName(t.X)
		return n, true
	case *ast.IndexExpr:
		return recvTypeName(t.X)
	case *ast.IndexListExpr:
		return recvTypeName(t.X)
	case *ast.Ident:
		return t.Name, false
	case *ast.ParenExpr:
		return recvTypeName(t.X)
	case *ast.SelectorExpr:
		return t.Sel.Name, false
	case *ast.FuncType:
		// unnamed function type (contract of calls through such values)
		return types.ExprString(t), false
	}
	return "", false
}

func headerKey(pkgPath string, fd *ast.FuncDecl) string {
	if fd.Recv != nil && len(fd.Recv.List) > 0 {
		n, ptr := recvTypeName(fd.Recv.List[0].Type)
		star := ""
		if ptr {
			star = "*"
		}
		return pkgPath + ".(" + star + n + ")." + fd.Name.Name
	}
	return pkgPath + "." + fd.Name.Name
}

func fieldNames(fl *ast.FieldList, prefix string) ([]string, []ast.Expr) {
	var names []string
	var tys []ast.Expr
	if fl == nil {
		return nil, nil
	}
	k := 0
	for _, f := range fl.List {
		if len(f.Names) == 0 {
			names = append(names, fmt.Sprintf("%s%d", prefix, k))
			tys = append(tys, f.Type)
			k++
			continue
		}
		for _, n := range f.Names {
			nm := n.Name
			if nm == "_" {
				nm = fmt.Sprintf("%s%d", prefix, k)
			}
			names = append(names, nm)
			tys = append(tys, f.Type)
			k++
		}
	}
	return names, tys
}

// ParseSpecText parses the spec lines of one file.
func (sp *Specs) ParseSpecText(lines []specLine, file, pkgPath string) error {
	// join continuation lines
	type stmt struct {
		kw   string
		rest string
		line int
	}
	var stmts []stmt
	for _, l := range lines {
		if l.text == "" || strings.HasPrefix(l.text, "//") || strings.HasPrefix(l.text, "#") {
			continue
		}
		// strip trailing // comments
		txt := l.text
		if i := strings.Index(txt, " // "); i >= 0 {
			txt = strings.TrimSpace(txt[:i])
		}
		fields := strings.Fields(txt)
		if len(fields) == 0 {
			continue
		}
		kw := fields[0]
		if !clauseKeywords[kw] {
			if len(stmts) == 0 {
				return fmt.Errorf("%s:%d: continuation without clause: %s", file, l.line, txt)
			}
			stmts[len(stmts)-1].rest += " " + txt
			continue
		}
		stmts = append(stmts, stmt{kw, strings.TrimSpace(txt[len(kw):]), l.line})
	}
	var cur *FuncSpec
	var curLoop *LoopSpec
	for _, s := range stmts {
		errf := func(format string, a ...any) error {
			return fmt.Errorf("%s:%d: %s", file, s.line, fmt.Sprintf(format, a...))
		}
		switch s.kw {
		case "package":
			pkgPath = s.rest
			cur = nil
		case "trusted":
			sp.TrustedTxt = append(sp.TrustedTxt, s.rest)
		case "func", "assumed", "lemma", "variant":
			hdr := s.rest
			assumed := false
			lemma := false
			variant := ""
			if s.kw == "variant" {
				// variant <prop> func <header>: a contract used instead of the base one when <prop> is checked
				ff := strings.SplitN(hdr, " ", 2)
				if len(ff) != 2 {
					return errf("variant <prop> func <header>")
				}
				variant = ff[0]
				hdr = strings.TrimSpace(ff[1])
				if strings.HasPrefix(hdr, "assumed ") {
					assumed = true
					hdr = strings.TrimSpace(strings.TrimPrefix(hdr, "assumed "))
				}
				hdr = strings.TrimSpace(strings.TrimPrefix(hdr, "func"))
			}
			if s.kw == "assumed" {
				assumed = true
				hdr = strings.TrimSpace(strings.TrimPrefix(hdr, "func"))
			}
			if s.kw == "lemma" {
				lemma = true
				hdr = strings.TrimSpace(strings.TrimPrefix(hdr, "func"))
			}
			fd, err := parseFuncHeader("func " + hdr)
			if err != nil {
				return errf("bad func header %q: %v", hdr, err)
			}
			fs := &FuncSpec{PkgPath: pkgPath, Name: fd.Name.Name, Header: hdr, Loops: map[int]*LoopSpec{}, File: file, Line: s.line, Assumed: assumed, Lemma: lemma, Opaque: map[string]bool{}}
			fs.Key = headerKey(pkgPath, fd)
			// closures: a header name F__2 stands for the anonymous function F$2 (F__1__1 for F$1$1)
			if i := strings.Index(fd.Name.Name, "__"); i > 0 {
				rest := fd.Name.Name[i:]
				ok := true
				for _, part := range strings.Split(strings.TrimPrefix(rest, "__"), "__") {
					if _, err := strconv.Atoi(part); err != nil {
						ok = false
					}
				}
				if ok {
					fs.Key = strings.TrimSuffix(fs.Key, rest) + strings.ReplaceAll(rest, "__", "$")
					fs.Name = fd.Name.Name[:i]
				}
			}
			if fd.Recv != nil && len(fd.Recv.List) > 0 && len(fd.Recv.List[0].Names) > 0 {
				fs.RecvName = fd.Recv.List[0].Names[0].Name
			}
			fs.ParamNames, _ = fieldNames(fd.Type.Params, "p")
			fs.ResultNames, _ = fieldNames(fd.Type.Results, "r")
			mapKey := fs.Key
			if variant != "" {
				mapKey = fs.Key + "@" + variant
				fs.Variant = variant
				fs.Props = []string{variant}
			}
			if _, dup := sp.Funcs[mapKey]; dup {
				return errf("duplicate contract for %s", mapKey)
			}
			sp.Funcs[mapKey] = fs
			cur = fs
			curLoop = nil
		case "end":
			cur = nil
			curLoop = nil
		case "spec", "pred":
			rest := s.rest
			rec := false
			bvonly := false
			trig := false
			eq := strings.Index(rest, " = ")
			if eq < 0 {
				return errf("spec function needs ' = body'")
			}
			hdr := strings.TrimSpace(rest[:eq])
			body := strings.TrimSpace(rest[eq+3:])
			for {
				if strings.HasSuffix(hdr, " rec") {
					rec = true
					hdr = strings.TrimSpace(strings.TrimSuffix(hdr, " rec"))
					continue
				}
				if strings.HasSuffix(hdr, " trig") {
					trig = true
					hdr = strings.TrimSpace(strings.TrimSuffix(hdr, " trig"))
					continue
				}
				if strings.HasSuffix(hdr, " bv-only") {
					bvonly = true
					hdr = strings.TrimSpace(strings.TrimSuffix(hdr, " bv-only"))
					continue
				}
				break
			}
			hdr = strings.TrimSpace(strings.TrimPrefix(hdr, "func"))
			if s.kw == "pred" && !strings.HasSuffix(hdr, " bool") {
				hdr += " bool"
			}
			fd, err := parseFuncHeader("func " + hdr)
			if err != nil {
				return errf("bad spec header %q: %v", hdr, err)
			}
			e, err := parseSpecExpr(body)
			if err != nil {
				return errf("bad spec body %q: %v", body, err)
			}
			sf := &SpecFunc{PkgPath: pkgPath, Body: e, Src: body, Rec: rec, BVOnly: bvonly, Trig: trig, File: file, Line: s.line}
			sf.Params, sf.ParamTys = fieldNames(fd.Type.Params, "p")
			if fd.Type.Results != nil && len(fd.Type.Results.List) > 0 {
				sf.RetTy = fd.Type.Results.List[0].Type
			}
			key := pkgPath + "." + fd.Name.Name
			sf.Name = fd.Name.Name
			if fd.Recv != nil && len(fd.Recv.List) > 0 {
				n, _ := recvTypeName(fd.Recv.List[0].Type)
				sf.RecvTParams = recvTypeParams(fd.Recv.List[0].Type)
				key = pkgPath + ".(" + n + ")." + fd.Name.Name
				if len(fd.Recv.List[0].Names) > 0 {
					sf.RecvName = fd.Recv.List[0].Names[0].Name
				}
			}
			sp.SpecFuncs[key] = sf
			cur = nil
		case "axiom":
			// axiom name(params): body
			rest := s.rest
			i := strings.Index(rest, ":")
			if i < 0 {
				return errf("axiom needs 'name(params): body'")
			}
			hdr := strings.TrimSpace(rest[:i])
			if !strings.Contains(hdr, "(") {
				hdr += "()"
			}
			fd, err := parseFuncHeader("func " + hdr)
			if err != nil {
				return errf("bad axiom header %q: %v", hdr, err)
			}
			cl, err := parseClause(rest[i+1:], file, s.line)
			if err != nil {
				return err
			}
			ax := &Axiom{PkgPath: pkgPath, Name: fd.Name.Name, Body: cl}
			ax.Params, ax.ParamTy = fieldNames(fd.Type.Params, "p")
			sp.Axioms = append(sp.Axioms, ax)
			cur = nil
		case "ghostfield":
			// ghostfield Type.field T
			f := strings.Fields(s.rest)
			if len(f) < 2 {
				return errf("ghostfield Type.field type")
			}
			tf := strings.SplitN(f[0], ".", 2)
			if len(tf) != 2 {
				return errf("ghostfield Type.field type")
			}
			alias := ""
			tyFields := f[1:]
			for i, w := range tyFields {
				if w == "alias" && i+1 < len(tyFields) {
					alias = tyFields[i+1]
					tyFields = tyFields[:i]
					break
				}
			}
			te, err := parser.ParseExpr(strings.Join(tyFields, " "))
			if err != nil {
				return errf("bad ghost field type: %v", err)
			}
			sp.Ghosts[pkgPath+"."+tf[0]+"."+tf[1]] = &GhostField{PkgPath: pkgPath, TypeName: tf[0], Field: tf[1], Type: te, Alias: alias}
		case "transparent":
			// external struct types whose fields are modelled (all others are opaque scalars)
			for _, n := range strings.Fields(s.rest) {
				transparentTypes[n] = true
			}
		case "ghostglobal":
			f := strings.Fields(s.rest)
			if len(f) < 2 {
				return errf("ghostglobal name type")
			}
			te, err := parser.ParseExpr(strings.Join(f[1:], " "))
			if err != nil {
				return errf("bad ghost global type: %v", err)
			}
			sp.GGlobals[pkgPath+"."+f[0]] = &GhostGlobal{PkgPath: pkgPath, Name: f[0], Type: te}
		case "monitor":
			// monitor recv Type lockfield guards f1 f2 ... [invariant expr]
			rest := s.rest
			segs := map[string]*Clause{}
			for {
				// cut the last segment off, repeatedly
				best, bestKw := -1, ""
				for _, kw := range []string{" invariant ", " assuming ", " rely ", " guarantee "} {
					if i := strings.LastIndex(rest, kw); i > best {
						best, bestKw = i, kw
					}
				}
				if best < 0 {
					break
				}
				cl, err := parseClause(rest[best+len(bestKw):], file, s.line)
				if err != nil {
					return err
				}
				segs[strings.TrimSpace(bestKw)] = cl
				rest = rest[:best]
			}
			f := strings.Fields(rest)
			only := ""
			if len(f) > 4 && f[3] == "only" {
				only = f[4]
				f = append(f[:3:3], f[5:]...)
			}
			if len(f) < 5 || f[3] != "guards" {
				return errf("monitor recv Type lockfield [only Cxx] guards f1 f2 ... [invariant expr] [rely expr] [guarantee expr] [assuming expr]")
			}
			sp.Monitors[pkgPath+"."+f[1]+"@"+only] = &MonitorSpec{PkgPath: pkgPath, RecvName: f[0], TypeName: f[1], Lock: f[2], Guards: f[4:], Inv: segs["invariant"], Assuming: segs["assuming"], Rely: segs["rely"], Guarantee: segs["guarantee"], Only: only}
		case "global":
			f := strings.Fields(s.rest)
			g := &GlobalSpec{PkgPath: pkgPath, Name: f[0]}
			for _, o := range f[1:] {
				switch o {
				case "immutable":
					g.Immutable = true
				case "nonnil":
					g.NonNil = true
				case "sentinel":
					g.Sentinel = true
					g.NonNil = true
					g.Immutable = true
				}
			}
			sp.Globals[pkgPath+"."+g.Name] = g
		default:
			if cur == nil {
				return errf("clause %q outside a func contract", s.kw)
			}
			switch s.kw {
			case "props":
				cur.Props = append(cur.Props, strings.Fields(s.rest)...)
			case "arith":
				if s.rest == "bv" {
					cur.Mode = ModeBV
				} else {
					cur.Mode = ModeInt
				}
			case "inline":
				cur.Inline = true
			case "pure":
				cur.Pure = true
			case "noframe":
				cur.NoFrame = true
			case "maypanic":
				cur.MayPanic = true
			case "deadreturn":
				if cur.DeadReturns == nil {
					cur.DeadReturns = map[int]bool{}
				}
				for _, f := range strings.Fields(s.rest) {
					n, _ := strconv.Atoi(f)
					cur.DeadReturns[n] = true
				}
			case "invokes":
				cur.Invokes = append(cur.Invokes, strings.Fields(s.rest)...)
			case "underlock":
				cur.UnderLock = "." + strings.TrimPrefix(strings.TrimSpace(s.rest), ".")
			case "timeout":
				cur.TimeoutS, _ = strconv.Atoi(s.rest)
			case "opaque":
				for _, n := range strings.Fields(s.rest) {
					cur.Opaque[n] = true
				}
			case "devirt":
				te, err := parser.ParseExpr(s.rest)
				if err != nil {
					return errf("bad devirt type: %v", err)
				}
				cur.Devirt = append(cur.Devirt, te)
			case "ghostexit":
				parts := strings.SplitN(s.rest, ":=", 2)
				if len(parts) != 2 {
					return errf("ghostexit lhs := rhs")
				}
				l, err := parseSpecExpr(strings.TrimSpace(parts[0]))
				if err != nil {
					return errf("bad ghostexit lhs: %v", err)
				}
				r, err := parseSpecExpr(strings.TrimSpace(parts[1]))
				if err != nil {
					return errf("bad ghostexit rhs: %v", err)
				}
				cur.GhostExit = append(cur.GhostExit, &GhostAssign{LHS: l, RHS: r, Src: s.rest, Line: s.line})
			case "ghost":
				f := strings.Fields(s.rest)
				if len(f) < 2 {
					return errf("ghost name type")
				}
				te, err := parser.ParseExpr(strings.Join(f[1:], " "))
				if err != nil {
					return errf("bad ghost type: %v", err)
				}
				cur.Ghosts = append(cur.Ghosts, GhostVar{f[0], te})
			case "requires", "ensures", "invariant", "decreases", "panics":
				cl, err := parseClause(s.rest, file, s.line)
				if err != nil {
					return err
				}
				switch s.kw {
				case "requires":
					cur.Requires = append(cur.Requires, cl)
				case "ensures":
					cur.Ensures = append(cur.Ensures, cl)
				case "panics":
					cur.Panics = cl
				case "invariant":
					if curLoop == nil {
						return errf("invariant outside loop")
					}
					curLoop.Invariants = append(curLoop.Invariants, cl)
				case "decreases":
					if curLoop == nil {
						return errf("decreases outside loop")
					}
					curLoop.Decreases = cl
				}
			case "modifies":
				for _, part := range splitTopLevel(s.rest, ',') {
					part = strings.TrimSpace(part)
					if part == "" {
						continue
					}
					// x[*] is written x[all] for the Go parser
					p2 := strings.ReplaceAll(part, "[*]", "[all_]")
					cl, err := parseClause(p2, file, s.line)
					if err != nil {
						return err
					}
					cl.Src = part
					if curLoop != nil {
						curLoop.Modifies = append(curLoop.Modifies, cl)
					} else {
						cur.Modifies = append(cur.Modifies, cl)
					}
				}
			case "loop":
				n, err := strconv.Atoi(strings.TrimSpace(s.rest))
				if err != nil {
					return errf("loop <n>")
				}
				curLoop = &LoopSpec{}
				cur.Loops[n] = curLoop
			case "unroll":
				if curLoop == nil {
					return errf("unroll outside loop")
				}
				curLoop.Unroll, _ = strconv.Atoi(strings.TrimSpace(s.rest))
			default:
				return errf("unknown clause %q", s.kw)
			}
		}
	}
	return nil
}

// LoadSpecs reads the guarded contract files of the repository (contents
// may come from an overlay) and the library contract files of /verif.
func LoadSpecs(repo string, overlay map[string][]byte, verifDir string) (*Specs, error) {
	sp := NewSpecs()
	var files []string
	filepath.Walk(repo, func(p string, info os.FileInfo, err error) error {
		if err != nil {
			return nil
		}
		if info.IsDir() && (info.Name() == ".git") {
			return filepath.SkipDir
		}
		if !info.IsDir() && strings.HasSuffix(info.Name(), "_verif.go") {
			files = append(files, p)
		}
		return nil
	})
	for p := range overlay {
		if strings.HasSuffix(p, "_verif.go") {
			found := false
			for _, f := range files {
				if f == p {
					found = true
				}
			}
			if !found {
				files = append(files, p)
			}
		}
	}
	sort.Strings(files)
	for _, f := range files {
		var content []byte
		if ov, ok := overlay[f]; ok {
			content = ov
		} else {
			b, err := os.ReadFile(f)
			if err != nil {
				return nil, err
			}
			content = b
		}
		rel, _ := filepath.Rel(repo, filepath.Dir(f))
		pkgPath := modulePath
		if rel != "." {
			pkgPath = modulePath + "/" + filepath.ToSlash(rel)
		}
		if err := sp.ParseSpecText(extractSpecLines(string(content)), f, pkgPath); err != nil {
			return nil, err
		}
		sp.Files = append(sp.Files, f)
	}
	libs, _ := filepath.Glob(filepath.Join(verifDir, "contracts", "*.spec"))
	sort.Strings(libs)
	for _, f := range libs {
		b, err := os.ReadFile(f)
		if err != nil {
			return nil, err
		}
		if err := sp.ParseSpecText(extractSpecLines(string(b)), f, ""); err != nil {
			return nil, err
		}
		sp.Files = append(sp.Files, f)
	}
	return sp, nil
}

// recvTypeParams extracts the type parameter names of a receiver type
// expression such as *Map[K, V].
func recvTypeParams(e ast.Expr) []string {
	switch t := e.(type) {
	case *ast.StarExpr:
		return recvTypeParams(t.X)
	case *ast.ParenExpr:
		return recvTypeParams(t.X)
	case *ast.IndexExpr:
		if id, ok := t.Index.(*ast.Ident); ok {
			return []string{id.Name}
		}
	case *ast.IndexListExpr:
		var out []string
		for _, ix := range t.Indices {
			if id, ok := ix.(*ast.Ident); ok {
				out = append(out, id.Name)
			}
		}
		return out
	}
	return nil
}
