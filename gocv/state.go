package main

import (
	"fmt"
	"go/types"
	"strings"

	"golang.org/x/tools/go/ssa"
)

type SliceV struct {
	Arr, Off, Len, Cap *Term
	Inner              map[string]*Term // spec-only: element storage given directly (leaf path -> array)
}

type LocKind int

const (
	LCell LocKind = iota
	LHeap
	LElem
	LGlobal
)

// Loc is an executor-level pointer value.
type Loc struct {
	Kind   LocKind
	Cell   *ssa.Alloc
	Global *ssa.Global
	Ref    *Term      // LHeap: the object
	Base   types.Type // LHeap: static type of *Ref (struct or boxed type); LElem: element type of the array
	Arr    *Term      // LElem
	Idx    *Term      // LElem: absolute index into storage
	PathS  string     // ".f.g"
	PathI  []int
	Type   types.Type // type of the content at this location
	Dummy  bool       // location inside an opaque (external) struct: reads are arbitrary, writes ignored
}

type Val struct {
	T    *Term
	Fs   []*Val
	Sl   *SliceV
	Loc  *Loc
	Fn   *ssa.Function
	Bind []*Val
}

func scalar(t *Term) *Val { return &Val{T: t} }

func (v *Val) String() string {
	switch {
	case v == nil:
		return "<nil>"
	case v.T != nil:
		return v.T.String()
	case v.Sl != nil:
		return fmt.Sprintf("slice(%s,%s,%s,%s)", v.Sl.Arr, v.Sl.Off, v.Sl.Len, v.Sl.Cap)
	case v.Loc != nil:
		return fmt.Sprintf("loc(%d %s)", v.Loc.Kind, v.Loc.PathS)
	case v.Fn != nil:
		return "fn " + v.Fn.Name()
	}
	parts := []string{}
	for _, f := range v.Fs {
		parts = append(parts, f.String())
	}
	return "{" + strings.Join(parts, ", ") + "}"
}

type loopVisit struct {
	measure *Term
	heapAt  map[string]*Term
	iters   int
}

type deferRec struct {
	call *ssa.CallCommon
	args []*Val
	fnv  *Val
	pos  ssa.Instruction
}

type Frame struct {
	id     int
	fn     *ssa.Function
	spec   *FuncSpec
	subst  map[*types.TypeParam]types.Type
	defers []deferRec
	ret    func(st *State, results []*Val)
	parent *Frame
	entry  *State // state at frame entry (for x0 names in inlined frames)
}

type State struct {
	cells  map[*ssa.Alloc]*Val
	regs   map[ssa.Value]*Val
	heap   map[string]*Term
	pc     []*Term
	loops  map[string]*loopVisit
	fresh  []freshObj // objects allocated on this path
	held   map[string]bool
	locks  map[string]int // number of acquisitions of a lock on this path
	ghost  map[string]*Val // ghost variables
	defers map[int][]deferRec
	pathID string
	dead   bool
	// snapshots at monitor Lock / Unlock operations on this path (newest last)
	lockSnaps   []*State
	unlockSnaps []*State
}

type freshObj struct {
	ref *Term
	key string // type key
}

func (s *State) clone() *State {
	n := &State{
		cells: make(map[*ssa.Alloc]*Val, len(s.cells)),
		regs:  make(map[ssa.Value]*Val, len(s.regs)),
		heap:  make(map[string]*Term, len(s.heap)),
		loops: make(map[string]*loopVisit, len(s.loops)),
		held:  make(map[string]bool, len(s.held)),
		ghost: make(map[string]*Val, len(s.ghost)),
	}
	for k, v := range s.cells {
		n.cells[k] = v
	}
	for k, v := range s.regs {
		n.regs[k] = v
	}
	for k, v := range s.heap {
		n.heap[k] = v
	}
	for k, v := range s.loops {
		n.loops[k] = v
	}
	for k, v := range s.held {
		n.held[k] = v
	}
	n.locks = make(map[string]int, len(s.locks))
	for k, v := range s.locks {
		n.locks[k] = v
	}
	for k, v := range s.ghost {
		n.ghost[k] = v
	}
	n.defers = make(map[int][]deferRec, len(s.defers))
	for k, v := range s.defers {
		n.defers[k] = append([]deferRec(nil), v...)
	}
	n.pc = append([]*Term(nil), s.pc...)
	n.fresh = append([]freshObj(nil), s.fresh...)
	n.pathID = s.pathID
	n.lockSnaps = append([]*State(nil), s.lockSnaps...)
	n.unlockSnaps = append([]*State(nil), s.unlockSnaps...)
	return n
}

func (s *State) assume(t *Term) {
	if t.IsTrue() {
		return
	}
	if t.Op == "and" {
		for _, a := range t.Args {
			s.assume(a)
		}
		return
	}
	s.pc = append(s.pc, t)
}

// snapshot is a copy of the state for later evaluation of atLock()/atUnlock()
// spec expressions; it carries no snapshots itself.
func (s *State) snapshot() *State {
	n := s.clone()
	n.lockSnaps, n.unlockSnaps = nil, nil
	return n
}
