package main

import (
	"path/filepath"
	"encoding/json"
	"fmt"
	"go/token"
	"go/types"
	"os"
	"sort"
	"strings"

	"golang.org/x/tools/go/packages"
	"golang.org/x/tools/go/ssa"
	"golang.org/x/tools/go/ssa/ssautil"
)

type Program struct {
	Repo  string
	Fset  *token.FileSet
	Pkgs  []*packages.Package
	Prog  *ssa.Program
	SPkgs map[string]*ssa.Package // by import path (all, incl. deps)
	Specs *Specs
	Funcs map[string]*ssa.Function // by key, module functions only
	// names of the locals of functions with loop invariants, in declaration order, as recorded on the
	// tree the contracts were written for (contracts/locals.json); nil if absent
	Locals map[string][]string
}

// LoadProgram loads the given package patterns of the repository with the
// `verif` build tag, from the working tree (plus an optional overlay), and
// builds naive-form SSA for them and their dependencies.
func LoadProgram(repo string, patterns []string, overlay map[string][]byte, verifDir string) (*Program, error) {
	env := []string{}
	for _, e := range os.Environ() {
		if strings.HasPrefix(e, "GOFLAGS=") {
			continue
		}
		env = append(env, e)
	}
	env = append(env, "GOFLAGS=", "GOPROXY=off", "GOSUMDB=off", "GOTOOLCHAIN=local")
	cfg := &packages.Config{
		Mode:       packages.LoadAllSyntax,
		Dir:        repo,
		BuildFlags: []string{"-tags=verif"},
		Env:        env,
		Overlay:    overlay,
	}
	pkgs, err := packages.Load(cfg, patterns...)
	if err != nil {
		return nil, err
	}
	var errs []string
	packages.Visit(pkgs, nil, func(p *packages.Package) {
		if strings.HasPrefix(p.PkgPath, modulePath) {
			for _, e := range p.Errors {
				errs = append(errs, e.Error())
			}
		}
	})
	if len(errs) > 0 {
		return nil, fmt.Errorf("package errors:\n%s", strings.Join(errs, "\n"))
	}
	prog, _ := ssautil.AllPackages(pkgs, ssa.NaiveForm)
	prog.Build()
	p := &Program{Repo: repo, Pkgs: pkgs, Prog: prog, SPkgs: map[string]*ssa.Package{}, Funcs: map[string]*ssa.Function{}}
	if len(pkgs) > 0 {
		p.Fset = pkgs[0].Fset
	}
	for _, sp := range prog.AllPackages() {
		p.SPkgs[sp.Pkg.Path()] = sp
	}
	for path, sp := range p.SPkgs {
		if !strings.HasPrefix(path, modulePath) {
			continue
		}
		for _, m := range sp.Members {
			switch mm := m.(type) {
			case *ssa.Function:
				p.addFunc(mm)
			case *ssa.Type:
				for _, T := range []types.Type{mm.Type(), types.NewPointer(mm.Type())} {
					ms := prog.MethodSets.MethodSet(T)
					for i := 0; i < ms.Len(); i++ {
						if f := prog.MethodValue(ms.At(i)); f != nil {
							p.addFunc(f)
						}
					}
				}
				// generic types: method sets of uninstantiated types are empty in
				// MethodSets; enumerate declared methods instead
				if named, ok := mm.Type().(*types.Named); ok {
					for i := 0; i < named.NumMethods(); i++ {
						if f := prog.FuncValue(named.Method(i)); f != nil {
							p.addFunc(f)
						}
					}
				}
			}
		}
	}
	sp, err := LoadSpecs(repo, overlay, verifDir)
	if err != nil {
		return nil, err
	}
	p.Specs = sp
	if b, err := os.ReadFile(filepath.Join(verifDir, "contracts", "locals.json")); err == nil {
		json.Unmarshal(b, &p.Locals)
	}
	// functions outside the module that carry a contract to be *verified* (e.g. container/heap
	// instantiated for a heap.Interface implementation of the module): their SSA bodies are
	// available because dependencies are loaded with syntax
	for _, fs := range sp.Funcs {
		if fs.Assumed || strings.HasPrefix(fs.PkgPath, modulePath) {
			continue
		}
		if spk := p.SPkgs[fs.PkgPath]; spk != nil {
			for _, m := range spk.Members {
				if fn, ok := m.(*ssa.Function); ok && funcKey(fn) == fs.Key && fn.Blocks != nil {
					p.addFunc(fn)
				}
				// methods of the package's named types (e.g. encoding/binary.bigEndian)
				if tm, ok := m.(*ssa.Type); ok {
					if named, ok := tm.Type().(*types.Named); ok {
						for i := 0; i < named.NumMethods(); i++ {
							if fn := prog.FuncValue(named.Method(i)); fn != nil && fn.Blocks != nil && funcKey(fn) == fs.Key {
								p.addFunc(fn)
							}
						}
					}
				}
			}
		}
	}
	return p, nil
}

func (p *Program) addFunc(f *ssa.Function) {
	if f == nil || f.Synthetic != "" && f.Blocks == nil {
		return
	}
	if o := f.Origin(); o != nil {
		f = o
	}
	if f.Synthetic != "" && !strings.HasPrefix(f.Synthetic, "package initializer") {
		return
	}
	k := funcKey(f)
	if _, ok := p.Funcs[k]; !ok {
		p.Funcs[k] = f
		for i, af := range f.AnonFuncs {
			p.Funcs[fmt.Sprintf("%s$%d", k, i+1)] = af
		}
	}
}

func funcPkgPath(fn *ssa.Function) string {
	if fn.Pkg != nil {
		return fn.Pkg.Pkg.Path()
	}
	if o := fn.Object(); o != nil && o.Pkg() != nil {
		return o.Pkg().Path()
	}
	if fn.Parent() != nil {
		return funcPkgPath(fn.Parent())
	}
	return ""
}

// funcKey is the canonical contract key of a function:
// pkgpath.Name, pkgpath.(*Recv).Name or pkgpath.(Recv).Name.
func funcKey(fn *ssa.Function) string {
	if o := fn.Origin(); o != nil {
		fn = o
	}
	if fn.Parent() != nil {
		for i, af := range fn.Parent().AnonFuncs {
			if af == fn {
				return fmt.Sprintf("%s$%d", funcKey(fn.Parent()), i+1)
			}
		}
	}
	pkg := funcPkgPath(fn)
	if recv := fn.Signature.Recv(); recv != nil {
		t := recv.Type()
		star := ""
		if pt, ok := t.(*types.Pointer); ok {
			star = "*"
			t = pt.Elem()
		}
		name := ""
		switch tt := types.Unalias(t).(type) {
		case *types.Named:
			name = tt.Obj().Name()
			if tt.Obj().Pkg() != nil {
				pkg = tt.Obj().Pkg().Path()
			}
		default:
			name = t.String()
		}
		return pkg + ".(" + star + name + ")." + fn.Name()
	}
	return pkg + "." + fn.Name()
}

// loopHeaders returns the loop headers of fn in block order, and for each
// header the set of blocks of its natural loop.
func loopHeaders(fn *ssa.Function) ([]*ssa.BasicBlock, map[*ssa.BasicBlock]map[*ssa.BasicBlock]bool) {
	bodies := map[*ssa.BasicBlock]map[*ssa.BasicBlock]bool{}
	for _, b := range fn.Blocks {
		for _, s := range b.Succs {
			if s.Dominates(b) {
				// back edge b -> s
				body := bodies[s]
				if body == nil {
					body = map[*ssa.BasicBlock]bool{s: true}
					bodies[s] = body
				}
				// reverse reachability from b without passing s
				stack := []*ssa.BasicBlock{b}
				for len(stack) > 0 {
					x := stack[len(stack)-1]
					stack = stack[:len(stack)-1]
					if body[x] {
						continue
					}
					body[x] = true
					for _, p := range x.Preds {
						stack = append(stack, p)
					}
				}
			}
		}
	}
	var hs []*ssa.BasicBlock
	for h := range bodies {
		hs = append(hs, h)
	}
	sort.Slice(hs, func(i, j int) bool { return hs[i].Index < hs[j].Index })
	return hs, bodies
}

// localNames lists the named locals of a function in declaration order (the naming scheme of frameCtx:
// a repeated name gets the suffix _2, _3 ...).
func localNames(fn *ssa.Function) []string {
	seen := map[string]int{}
	var out []string
	for _, b := range fn.Blocks {
		for _, in := range b.Instrs {
			al, ok := in.(*ssa.Alloc)
			if !ok || al.Comment == "" {
				continue
			}
			name := al.Comment
			// compiler-made temporaries are not locals of the source (a refactoring that moves a call into a helper
			// moves its varargs array along: the count of *named* locals is what has to stay the same)
			switch name {
			case "varargs", "complit", "slicelit", "arraylit", "new", "makeslice", "makemap", "makechan", "rangeindex", "rangeiter":
				continue
			}
			seen[name]++
			if seen[name] > 1 {
				name = fmt.Sprintf("%s_%d", name, seen[name])
			}
			out = append(out, name)
		}
	}
	return out
}

func writeLocals(repo, verifDir string) int {
	P, err := LoadProgram(repo, []string{"./...", "container/heap"}, nil, verifDir)
	if err != nil {
		fmt.Fprintln(os.Stderr, err)
		return 2
	}
	out := map[string][]string{}
	for _, fs := range P.Specs.Funcs {
		if fs.Assumed {
			continue
		}
		fn := P.Funcs[fs.Key]
		if fn == nil {
			continue
		}
		// captured variables of a closure under contract, in capture order (key "<function>#free")
		if len(fn.FreeVars) > 0 {
			var names []string
			for _, fv := range fn.FreeVars {
				names = append(names, fv.Name())
			}
			out[fs.Key+"#free"] = names
		}
		if len(fs.Loops) == 0 {
			continue
		}
		out[fs.Key] = localNames(fn)
	}
	b, _ := json.MarshalIndent(out, "", " ")
	if err := os.WriteFile(filepath.Join(verifDir, "contracts", "locals.json"), append(b, '\n'), 0o644); err != nil {
		fmt.Fprintln(os.Stderr, err)
		return 2
	}
	fmt.Printf("locals of %d functions recorded\n", len(out))
	return 0
}
