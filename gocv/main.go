package main

import (
	"flag"
	"fmt"
	"os"
	"path/filepath"
)

func main() {
	if len(os.Args) < 2 {
		fmt.Fprintln(os.Stderr, "usage: gocv check <prop> [--tier quick|thorough] | selftest | replay <file>")
		os.Exit(2)
	}
	verifDir := os.Getenv("VERIF_DIR")
	if verifDir == "" {
		verifDir = "/verif"
	}
	repo := os.Getenv("VERIF_REPO")
	if repo == "" {
		repo = "/repo"
	}
	switch os.Args[1] {
	case "check":
		fs := flag.NewFlagSet("check", flag.ExitOnError)
		tier := fs.String("tier", "", "quick|thorough")
		verbose := fs.Bool("v", false, "verbose")
		only := fs.String("fn", "", "only functions containing this substring")
		keep := fs.Bool("keep", false, "keep SMT queries")
		timeout := fs.Int("timeout", 0, "per-obligation timeout (s)")
		noev := fs.Bool("no-evidence", false, "do not write the evidence file")
		prop := os.Args[2]
		fs.Parse(os.Args[3:])
		if *tier == "" {
			*tier = os.Getenv("VERIF_TIER")
		}
		if *tier == "" {
			*tier = "quick"
		}
		opts := CheckOpts{Prop: prop, Tier: *tier, TimeoutS: 20, Verbose: *verbose, OnlyFn: *only}
		if *tier == "thorough" {
			opts.TimeoutS = 120
			opts.All = true
		}
		if *timeout > 0 {
			opts.TimeoutS = *timeout
		}
		keepQueries = *keep
		var err error
		os.MkdirAll(filepath.Join(verifDir, ".work"), 0o755)
		workDir, err = os.MkdirTemp(filepath.Join(verifDir, ".work"), prop+"-")
		if err != nil {
			panic(err)
		}
		code := runCheck(repo, verifDir, opts, nil, !*noev && *only == "")
		if !keepQueries {
			os.RemoveAll(workDir)
		} else {
			fmt.Println("queries kept in", workDir)
		}
		os.Exit(code)
	case "selftest":
		os.MkdirAll(filepath.Join(verifDir, ".work"), 0o755)
		workDir, _ = os.MkdirTemp(filepath.Join(verifDir, ".work"), "selftest-")
		only := ""
		if len(os.Args) > 2 {
			only = os.Args[2]
		}
		code := runSelftest(repo, verifDir, only)
		os.RemoveAll(workDir)
		os.Exit(code)
	case "checkpatch":
		// gocv checkpatch <prop> <patch.diff>: the quick check of <prop> on the tree with the patch applied
		// through an in-memory overlay (nothing is written into the repository)
		if len(os.Args) < 4 {
			fmt.Fprintln(os.Stderr, "usage: gocv checkpatch <prop> <patch.diff>")
			os.Exit(2)
		}
		os.MkdirAll(filepath.Join(verifDir, ".work"), 0o755)
		workDir, _ = os.MkdirTemp(filepath.Join(verifDir, ".work"), "patch-")
		ov, err := overlayFromPatch(repo, os.Args[3])
		if err != nil {
			fmt.Fprintln(os.Stderr, err)
			os.RemoveAll(workDir)
			os.Exit(2)
		}
		code := runCheck(repo, verifDir, CheckOpts{Prop: os.Args[2], Tier: "quick", TimeoutS: 20}, ov, false)
		os.RemoveAll(workDir)
		os.Exit(code)
	case "locals":
		// gocv locals: records, for every function under contract with loop invariants, the names of its
		// locals in declaration order (contracts/locals.json).  Used only to keep invariants applicable when
		// a local is merely renamed: an unknown name is then looked up by its recorded position.
		os.Exit(writeLocals(repo, verifDir))
	case "replay":
		if len(os.Args) < 3 {
			fmt.Fprintln(os.Stderr, "usage: gocv replay <file>")
			os.Exit(2)
		}
		os.MkdirAll(filepath.Join(verifDir, ".work"), 0o755)
		workDir, _ = os.MkdirTemp(filepath.Join(verifDir, ".work"), "replay-")
		code := runReplayFile(repo, verifDir, os.Args[2])
		os.RemoveAll(workDir)
		os.Exit(code)
	default:
		fmt.Fprintln(os.Stderr, "unknown command", os.Args[1])
		os.Exit(2)
	}
}
