package main

// SMT term layer: a small hash-consed-free term AST with light simplification
// and an SMT-LIB2 printer.  Sorts are plain strings in SMT-LIB syntax.

import (
	"sync/atomic"
	"fmt"
	"math/big"
	"sort"
	"strings"
)

type Sort string

const (
	SBool Sort = "Bool"
	SInt  Sort = "Int"
	SRef  Sort = "Int" // references are integers; nil = 0
	SBV8  Sort = "(_ BitVec 8)"
	SBV16 Sort = "(_ BitVec 16)"
	SBV32 Sort = "(_ BitVec 32)"
	SBV64 Sort = "(_ BitVec 64)"
)

func BVSort(w int) Sort { return Sort(fmt.Sprintf("(_ BitVec %d)", w)) }
func ArraySort(idx, el Sort) Sort {
	return Sort("(Array " + string(idx) + " " + string(el) + ")")
}
func (s Sort) IsBV() bool { return strings.HasPrefix(string(s), "(_ BitVec") }
func (s Sort) BVWidth() int {
	var w int
	fmt.Sscanf(string(s), "(_ BitVec %d)", &w)
	return w
}
func (s Sort) IsArray() bool { return strings.HasPrefix(string(s), "(Array ") }

// ArrayParts splits "(Array A B)" into A and B.
func (s Sort) ArrayParts() (Sort, Sort) {
	str := string(s)
	str = str[len("(Array ") : len(str)-1]
	// first sort token
	depth := 0
	for i := 0; i < len(str); i++ {
		switch str[i] {
		case '(':
			depth++
		case ')':
			depth--
		case ' ':
			if depth == 0 {
				return Sort(str[:i]), Sort(str[i+1:])
			}
		}
	}
	panic("bad array sort " + string(s))
}

type Term struct {
	Op   string // operator or symbol name; "" for literal
	Args []*Term
	Sort Sort
	// literals
	IntVal *big.Int // for Int and BV literals
	// quantifier
	Bound []*Term // bound variables (symbols) for forall/exists
	Pats  [][]*Term
	str   atomic.Pointer[string] // cached rendering (terms are shared between solver goroutines)
}

var (
	TTrue  = &Term{Op: "true", Sort: SBool}
	TFalse = &Term{Op: "false", Sort: SBool}
)

func Sym(name string, s Sort) *Term { return &Term{Op: name, Sort: s} }

func IntLit(v int64) *Term { return &Term{Sort: SInt, IntVal: big.NewInt(v)} }
func IntLitBig(v *big.Int) *Term {
	return &Term{Sort: SInt, IntVal: new(big.Int).Set(v)}
}
func BVLit(v *big.Int, w int) *Term {
	m := new(big.Int).Lsh(big.NewInt(1), uint(w))
	x := new(big.Int).Mod(v, m)
	return &Term{Sort: BVSort(w), IntVal: x}
}
func BVLit64(v uint64, w int) *Term { return BVLit(new(big.Int).SetUint64(v), w) }

func (t *Term) IsLit() bool   { return t.IntVal != nil }
func (t *Term) IsTrue() bool  { return t == TTrue || (t.Op == "true" && len(t.Args) == 0) }
func (t *Term) IsFalse() bool { return t == TFalse || (t.Op == "false" && len(t.Args) == 0) }

func App(op string, s Sort, args ...*Term) *Term {
	for i, a := range args {
		if a == nil {
			panic(fmt.Sprintf("nil arg %d in %s", i, op))
		}
	}
	return &Term{Op: op, Sort: s, Args: args}
}

func (t *Term) String() string {
	if p := t.str.Load(); p != nil {
		return *p
	}
	var sb strings.Builder
	t.write(&sb)
	r := sb.String()
	t.str.Store(&r)
	return r
}

func (t *Term) write(sb *strings.Builder) {
	if p := t.str.Load(); p != nil {
		sb.WriteString(*p)
		return
	}
	if t.IntVal != nil {
		if t.Sort == SInt {
			if t.IntVal.Sign() < 0 {
				sb.WriteString("(- ")
				sb.WriteString(new(big.Int).Neg(t.IntVal).String())
				sb.WriteString(")")
			} else {
				sb.WriteString(t.IntVal.String())
			}
		} else {
			w := t.Sort.BVWidth()
			if w%4 == 0 {
				s := t.IntVal.Text(16)
				sb.WriteString("#x")
				for i := len(s); i < w/4; i++ {
					sb.WriteByte('0')
				}
				sb.WriteString(s)
			} else {
				fmt.Fprintf(sb, "(_ bv%s %d)", t.IntVal.String(), w)
			}
		}
		return
	}
	if t.Op == "forall" || t.Op == "exists" {
		sb.WriteString("(")
		sb.WriteString(t.Op)
		sb.WriteString(" (")
		for _, b := range t.Bound {
			fmt.Fprintf(sb, "(%s %s)", b.Op, b.Sort)
		}
		sb.WriteString(") ")
		if len(t.Pats) > 0 {
			sb.WriteString("(! ")
		}
		t.Args[0].write(sb)
		if len(t.Pats) > 0 {
			for _, p := range t.Pats {
				sb.WriteString(" :pattern (")
				for i, pt := range p {
					if i > 0 {
						sb.WriteString(" ")
					}
					pt.write(sb)
				}
				sb.WriteString(")")
			}
			sb.WriteString(")")
		}
		sb.WriteString(")")
		return
	}
	if len(t.Args) == 0 {
		sb.WriteString(t.Op)
		return
	}
	sb.WriteString("(")
	sb.WriteString(t.Op)
	for _, a := range t.Args {
		sb.WriteString(" ")
		a.write(sb)
	}
	sb.WriteString(")")
}

// ---- boolean constructors with simplification ----

func And(ts ...*Term) *Term {
	var out []*Term
	for _, t := range ts {
		if t.IsTrue() {
			continue
		}
		if t.IsFalse() {
			return TFalse
		}
		if t.Op == "and" {
			out = append(out, t.Args...)
		} else {
			out = append(out, t)
		}
	}
	if len(out) == 0 {
		return TTrue
	}
	if len(out) == 1 {
		return out[0]
	}
	return App("and", SBool, out...)
}

func Or(ts ...*Term) *Term {
	var out []*Term
	for _, t := range ts {
		if t.IsFalse() {
			continue
		}
		if t.IsTrue() {
			return TTrue
		}
		if t.Op == "or" {
			out = append(out, t.Args...)
		} else {
			out = append(out, t)
		}
	}
	if len(out) == 0 {
		return TFalse
	}
	if len(out) == 1 {
		return out[0]
	}
	return App("or", SBool, out...)
}

func Not(t *Term) *Term {
	if t.IsTrue() {
		return TFalse
	}
	if t.IsFalse() {
		return TTrue
	}
	if t.Op == "not" {
		return t.Args[0]
	}
	return App("not", SBool, t)
}

func Implies(a, b *Term) *Term {
	if a.IsTrue() {
		return b
	}
	if a.IsFalse() || b.IsTrue() {
		return TTrue
	}
	if b.IsFalse() {
		return Not(a)
	}
	return App("=>", SBool, a, b)
}

func Eq(a, b *Term) *Term {
	if a.Sort != b.Sort {
		panic(fmt.Sprintf("Eq sort mismatch: %s : %s  vs  %s : %s", a, a.Sort, b, b.Sort))
	}
	if a == b || a.String() == b.String() {
		return TTrue
	}
	if a.IsLit() && b.IsLit() {
		if a.IntVal.Cmp(b.IntVal) == 0 {
			return TTrue
		}
		return TFalse
	}
	if a.Sort == SBool {
		if a.IsTrue() {
			return b
		}
		if b.IsTrue() {
			return a
		}
		if a.IsFalse() {
			return Not(b)
		}
		if b.IsFalse() {
			return Not(a)
		}
	}
	return App("=", SBool, a, b)
}

func Neq(a, b *Term) *Term { return Not(Eq(a, b)) }

func Ite(c, a, b *Term) *Term {
	if c.IsTrue() {
		return a
	}
	if c.IsFalse() {
		return b
	}
	if a.Sort != b.Sort {
		panic(fmt.Sprintf("Ite sort mismatch: %s:%s vs %s:%s", a, a.Sort, b, b.Sort))
	}
	if a.String() == b.String() {
		return a
	}
	if a.Sort == SBool {
		if a.IsTrue() && b.IsFalse() {
			return c
		}
		if a.IsFalse() && b.IsTrue() {
			return Not(c)
		}
	}
	return App("ite", a.Sort, c, a, b)
}

// ---- Int arithmetic ----

func intBin(op string, a, b *Term, f func(x, y *big.Int) *big.Int) *Term {
	if a.Sort != SInt || b.Sort != SInt {
		panic(fmt.Sprintf("int op %s on %s:%s, %s:%s", op, a, a.Sort, b, b.Sort))
	}
	if a.IsLit() && b.IsLit() && f != nil {
		return IntLitBig(f(a.IntVal, b.IntVal))
	}
	return App(op, SInt, a, b)
}

func Add(a, b *Term) *Term {
	if a.IsLit() && a.IntVal.Sign() == 0 {
		return b
	}
	if b.IsLit() && b.IntVal.Sign() == 0 {
		return a
	}
	return intBin("+", a, b, func(x, y *big.Int) *big.Int { return new(big.Int).Add(x, y) })
}
func Sub(a, b *Term) *Term {
	if b.IsLit() && b.IntVal.Sign() == 0 {
		return a
	}
	return intBin("-", a, b, func(x, y *big.Int) *big.Int { return new(big.Int).Sub(x, y) })
}
func Mul(a, b *Term) *Term {
	if a.IsLit() && a.IntVal.Cmp(big.NewInt(1)) == 0 {
		return b
	}
	if b.IsLit() && b.IntVal.Cmp(big.NewInt(1)) == 0 {
		return a
	}
	return intBin("*", a, b, func(x, y *big.Int) *big.Int { return new(big.Int).Mul(x, y) })
}
func Neg(a *Term) *Term {
	if a.IsLit() {
		return IntLitBig(new(big.Int).Neg(a.IntVal))
	}
	return App("-", SInt, a)
}

func cmpLit(op string, a, b *Term) (*Term, bool) {
	if a.IsLit() && b.IsLit() {
		c := a.IntVal.Cmp(b.IntVal)
		var r bool
		switch op {
		case "<":
			r = c < 0
		case "<=":
			r = c <= 0
		case ">":
			r = c > 0
		case ">=":
			r = c >= 0
		}
		if r {
			return TTrue, true
		}
		return TFalse, true
	}
	return nil, false
}

func Lt(a, b *Term) *Term {
	if r, ok := cmpLit("<", a, b); ok {
		return r
	}
	return App("<", SBool, a, b)
}
func Le(a, b *Term) *Term {
	if r, ok := cmpLit("<=", a, b); ok {
		return r
	}
	return App("<=", SBool, a, b)
}
func Gt(a, b *Term) *Term { return Lt(b, a) }
func Ge(a, b *Term) *Term { return Le(b, a) }

// ---- arrays ----

func Select(arr, idx *Term) *Term {
	if !arr.Sort.IsArray() {
		panic("select on non-array " + arr.String() + " : " + string(arr.Sort))
	}
	is, es := arr.Sort.ArrayParts()
	if idx.Sort != is {
		panic(fmt.Sprintf("select index sort mismatch: %s has %s, idx %s:%s", arr.Sort, is, idx, idx.Sort))
	}
	// select(store(a,i,v), i) = v
	for arr.Op == "store" {
		si := arr.Args[1]
		if si.String() == idx.String() {
			return arr.Args[2]
		}
		if si.IsLit() && idx.IsLit() {
			arr = arr.Args[0]
			continue
		}
		break
	}
	return App("select", es, arr, idx)
}

func Store(arr, idx, v *Term) *Term {
	is, es := arr.Sort.ArrayParts()
	if idx.Sort != is || v.Sort != es {
		panic(fmt.Sprintf("store sort mismatch: %s idx %s:%s val %s:%s", arr.Sort, idx, idx.Sort, v, v.Sort))
	}
	return App("store", arr.Sort, arr, idx, v)
}

func ConstArray(s Sort, v *Term) *Term {
	return App("(as const "+string(s)+")", s, v)
}

// ---- quantifiers ----

// validPattern: triggers may not contain logical connectives, ite, equalities or comparisons
func validPattern(t *Term) bool {
	ok := true
	t.walk(func(x *Term) {
		switch x.Op {
		case "and", "or", "not", "ite", "=>", "=", "<", "<=", ">", ">=", "forall", "exists", "distinct", "bvslt", "bvsle", "bvult", "bvule":
			ok = false
		}
	})
	return ok
}

func Forall(bound []*Term, body *Term, pats ...[]*Term) *Term {
	if body.IsTrue() {
		return TTrue
	}
	var good [][]*Term
	for _, p := range pats {
		v := len(p) > 0
		for _, t := range p {
			if !validPattern(t) {
				v = false
			}
		}
		if v {
			good = append(good, p)
		}
	}
	pats = good
	return &Term{Op: "forall", Sort: SBool, Args: []*Term{body}, Bound: bound, Pats: pats}
}
func Exists(bound []*Term, body *Term) *Term {
	if body.IsFalse() {
		return TFalse
	}
	return &Term{Op: "exists", Sort: SBool, Args: []*Term{body}, Bound: bound}
}

// ---- traversal ----

// FreeSyms collects nullary symbols and applied function symbols (by name)
// appearing in t that are registered in decls.
func (t *Term) walk(f func(*Term)) {
	f(t)
	for _, a := range t.Args {
		a.walk(f)
	}
	for _, p := range t.Pats {
		for _, pt := range p {
			pt.walk(f)
		}
	}
}

// Subst replaces symbols (by name) with terms.
func (t *Term) Subst(m map[string]*Term) *Term {
	if len(m) == 0 {
		return t
	}
	if t.IntVal != nil {
		return t
	}
	if len(t.Args) == 0 {
		if r, ok := m[t.Op]; ok {
			return r
		}
		return t
	}
	if t.Op == "forall" || t.Op == "exists" {
		// bound names are generated unique; no capture handling needed
		nb := t.Args[0].Subst(m)
		var np [][]*Term
		for _, p := range t.Pats {
			var q []*Term
			for _, pt := range p {
				q = append(q, pt.Subst(m))
			}
			np = append(np, q)
		}
		return &Term{Op: t.Op, Sort: t.Sort, Args: []*Term{nb}, Bound: t.Bound, Pats: np}
	}
	changed := false
	na := make([]*Term, len(t.Args))
	for i, a := range t.Args {
		na[i] = a.Subst(m)
		if na[i] != a {
			changed = true
		}
	}
	if !changed {
		return t
	}
	return &Term{Op: t.Op, Sort: t.Sort, Args: na}
}

// ---- declarations ----

type FuncDecl struct {
	Name string
	Args []Sort
	Ret  Sort
}

type Decls struct {
	Sorts map[string]bool
	Funcs map[string]*FuncDecl
	order []string
}

func NewDecls() *Decls {
	return &Decls{Sorts: map[string]bool{}, Funcs: map[string]*FuncDecl{}}
}

func (d *Decls) Sort(name string) Sort {
	d.Sorts[name] = true
	return Sort(name)
}

func (d *Decls) Const(name string, s Sort) *Term {
	if f, ok := d.Funcs[name]; ok {
		if f.Ret != s || len(f.Args) != 0 {
			panic(fmt.Sprintf("redeclared %s with different sort: %s vs %s", name, f.Ret, s))
		}
		return Sym(name, s)
	}
	d.Funcs[name] = &FuncDecl{Name: name, Ret: s}
	d.order = append(d.order, name)
	return Sym(name, s)
}

func (d *Decls) Func(name string, ret Sort, args ...Sort) *FuncDecl {
	if f, ok := d.Funcs[name]; ok {
		return f
	}
	f := &FuncDecl{Name: name, Args: args, Ret: ret}
	d.Funcs[name] = f
	d.order = append(d.order, name)
	return f
}

func (d *Decls) Apply(name string, args ...*Term) *Term {
	f := d.Funcs[name]
	if f == nil {
		panic("undeclared function " + name)
	}
	if len(args) != len(f.Args) {
		panic("arity mismatch for " + name)
	}
	for i, a := range args {
		if a.Sort != f.Args[i] {
			panic(fmt.Sprintf("arg %d of %s: sort %s, want %s (%s)", i, name, a.Sort, f.Args[i], a))
		}
	}
	return App(name, f.Ret, args...)
}

// Script renders a full SMT-LIB2 query: declarations used by the given
// assertions (all declarations, in order), assertions, check-sat.
func (d *Decls) Script(asserts []*Term, getValues []*Term, logic string) string {
	var sb strings.Builder
	sb.WriteString("(set-option :produce-models true)\n")
	if logic != "" {
		fmt.Fprintf(&sb, "(set-logic %s)\n", logic)
	}
	// only declare what is used
	used := map[string]bool{}
	for _, a := range asserts {
		a.walk(func(t *Term) {
			if t.IntVal == nil {
				used[t.Op] = true
			}
		})
	}
	for _, g := range getValues {
		g.walk(func(t *Term) {
			if t.IntVal == nil {
				used[t.Op] = true
			}
		})
	}
	var sorts []string
	for s := range d.Sorts {
		sorts = append(sorts, s)
	}
	sort.Strings(sorts)
	for _, s := range sorts {
		fmt.Fprintf(&sb, "(declare-sort %s 0)\n", s)
	}
	for _, n := range d.order {
		if !used[n] {
			continue
		}
		f := d.Funcs[n]
		if len(f.Args) == 0 {
			fmt.Fprintf(&sb, "(declare-const %s %s)\n", n, f.Ret)
		} else {
			sb.WriteString("(declare-fun " + n + " (")
			for i, a := range f.Args {
				if i > 0 {
					sb.WriteString(" ")
				}
				sb.WriteString(string(a))
			}
			fmt.Fprintf(&sb, ") %s)\n", f.Ret)
		}
	}
	for _, a := range asserts {
		sb.WriteString("(assert ")
		sb.WriteString(a.String())
		sb.WriteString(")\n")
	}
	sb.WriteString("(check-sat)\n")
	if len(getValues) > 0 {
		sb.WriteString("(get-value (")
		for i, g := range getValues {
			if i > 0 {
				sb.WriteString(" ")
			}
			sb.WriteString(g.String())
		}
		sb.WriteString("))\n")
	}
	return sb.String()
}
