package main

import (
	"fmt"
	"go/ast"
	"go/constant"
	"go/types"
	"sort"
	"strings"

	"golang.org/x/tools/go/ssa"
)

func tupleOrSingle(vs []*Val) *Val {
	switch len(vs) {
	case 0:
		return nil
	case 1:
		return vs[0]
	}
	return &Val{Fs: vs}
}

func (ex *Exec) execCall(st *State, fr *Frame, call *ssa.CallCommon, instr ssa.Instruction, k func(st *State, res *Val)) {
	var args []*Val
	for _, a := range call.Args {
		args = append(args, ex.val(st, a))
	}
	var fnv *Val
	if !call.IsInvoke() {
		if _, isB := call.Value.(*ssa.Builtin); !isB {
			fnv = ex.val(st, call.Value)
		}
	} else {
		fnv = ex.val(st, call.Value)
	}
	ex.execCallVals(st, fr, call, fnv, args, instr, k)
}

func (ex *Exec) execCallVals(st *State, fr *Frame, call *ssa.CallCommon, fnv *Val, args []*Val, instr ssa.Instruction, k func(st *State, res *Val)) {
	if call.IsInvoke() {
		ex.invokeCall(st, fr, call, fnv, args, instr, k)
		return
	}
	if b, ok := call.Value.(*ssa.Builtin); ok {
		ex.callBuiltin(st, fr, b, call, args, instr, k)
		return
	}
	var callee *ssa.Function
	var binds []*Val
	switch v := call.Value.(type) {
	case *ssa.Function:
		callee = v
	case *ssa.MakeClosure:
		callee = v.Fn.(*ssa.Function)
		if fnv != nil {
			binds = fnv.Bind
		}
	default:
		if fnv != nil && fnv.Fn != nil {
			callee = fnv.Fn
			binds = fnv.Bind
		}
	}
	if callee == nil {
		ex.dynamicCall(st, fr, call, fnv, args, instr, k)
		return
	}
	ex.staticCall(st, fr, callee, binds, args, instr, k)
}

func (ex *Exec) calleeSubst(fr *Frame, callee *ssa.Function) (body *ssa.Function, subst map[*types.TypeParam]types.Type) {
	subst = map[*types.TypeParam]types.Type{}
	for k, v := range fr.subst {
		subst[k] = v
	}
	body = callee
	if o := callee.Origin(); o != nil {
		body = o
		tps := o.TypeParams()
		tas := callee.TypeArgs()
		for i := 0; i < tps.Len() && i < len(tas); i++ {
			subst[tps.At(i)] = tas[i]
		}
	}
	return
}

func shortKey(k string) string { return strings.TrimPrefix(k, modulePath+"/") }

func (ex *Exec) staticCall(st *State, fr *Frame, callee *ssa.Function, binds []*Val, args []*Val, instr ssa.Instruction, k func(st *State, res *Val)) {
	key := funcKey(callee)
	if callee.Name() == "init" && callee.Synthetic != "" && callee != fr.fn {
		// initialisation of an imported package: not part of this function's contract
		k(st, nil)
		return
	}
	if ex.intrinsic(st, fr, key, callee, args, instr, k) {
		return
	}
	body, subst := ex.calleeSubst(fr, callee)
	cs := ex.P.Specs.For(key, ex.prop)
	if cs == nil && body.Parent() != nil {
		// closures without contract are inlined
		cs = &FuncSpec{Key: key, Inline: true, Loops: map[int]*LoopSpec{}, Opaque: map[string]bool{}}
	}
	if cs == nil && strings.HasPrefix(callee.Name(), "init#") && fr.fn.Name() == "init" && fr.fn.Synthetic != "" {
		// a declared `func init()` is part of the package initialiser
		cs = &FuncSpec{Key: key, Inline: true, Loops: map[int]*LoopSpec{}, Opaque: map[string]bool{}}
	}
	if boundedMode && cs == nil && len(body.Blocks) > 0 && strings.HasPrefix(funcPkgPath(body), modulePath) && !ex.onInlineStack(fr, body) {
		// bounded stand-in: a module callee without contract (e.g. a new helper with a loop) is executed in place,
		// its loops unrolled like the caller's; callees under contract are used through their contracts
		ics := &FuncSpec{Key: key, Inline: true, Loops: map[int]*LoopSpec{}, Opaque: map[string]bool{}}
		ex.inlineCall(st, fr, body, ics, subst, binds, args, instr, k)
		return
	}
	if cexMode && !boundedMode && (cs == nil || !cs.Assumed) && len(body.Blocks) > 0 && strings.HasPrefix(funcPkgPath(body), modulePath) {
		// counterexample search: use the callee's body instead of its contract
		ics := &FuncSpec{Key: key, Inline: true, Loops: map[int]*LoopSpec{}, Opaque: map[string]bool{}}
		ex.inlineCall(st, fr, body, ics, subst, binds, args, instr, k)
		return
	}
	if cs == nil && len(body.Blocks) > 0 && strings.HasPrefix(funcPkgPath(body), modulePath) && !hasLoop(body) && !ex.onInlineStack(fr, body) {
		// a module function without contract and without loops (typically a helper extracted by a refactoring):
		// its body is executed in place instead of rejecting the caller
		cs = &FuncSpec{Key: key, Inline: true, Loops: map[int]*LoopSpec{}, Opaque: map[string]bool{}}
		ex.warnings = append(ex.warnings, "call of "+shortKey(key)+" (no contract, no loops) was inlined")
	}
	if cs == nil {
		panic(oos("call to " + key + " which has no contract"))
	}
	ex.callees[shortKey(key)] = true
	if cs.Inline {
		ex.inlineCall(st, fr, body, cs, subst, binds, args, instr, k)
		return
	}
	if cs.Assumed {
		ex.trusted["assumed contract: "+shortKey(key)] = true
	}
	ex.invokeFuncArgs(st, fr, cs, body.Signature, args, instr, 0, func(st *State) {
		saved := ex.env.subst
		ex.env.subst = subst
		res := ex.callContract(st, fr, cs, body.Signature, body, args, instr)
		ex.env.subst = saved
		k(st, res)
	})
}

// invokeFuncArgs: `invokes p` in the contract of an assumed higher-order function (redis Watch/TxPipelined):
// the function value passed as p is called once during the call, with arbitrary non-nil arguments; it is
// executed here (by its contract, or in place if it is a closure without one) before the callee's own
// contract is applied, so that obligations inside the callback are generated in the caller's context.
func (ex *Exec) invokeFuncArgs(st *State, fr *Frame, cs *FuncSpec, sig *types.Signature, args []*Val, instr ssa.Instruction, n int, k func(st *State)) {
	if n >= len(cs.Invokes) {
		k(st)
		return
	}
	off := 0
	if sig.Recv() != nil {
		off = 1
	}
	var fv *Val
	for j := 0; j < sig.Params().Len(); j++ {
		name := sig.Params().At(j).Name()
		if j < len(cs.ParamNames) {
			name = cs.ParamNames[j]
		}
		if name == cs.Invokes[n] && off+j < len(args) {
			fv = args[off+j]
		}
	}
	if fv == nil || fv.Fn == nil {
		panic(oos("invokes " + cs.Invokes[n] + " of " + shortKey(cs.Key) + ": the argument is not a known function"))
	}
	var fargs []*Val
	alloc := ex.allocArr(st)
	for i, p := range fv.Fn.Params {
		v := ex.freshVal(p.Type(), fmt.Sprintf("cb%d %s", ex.nfresh, p.Name()))
		ex.nfresh++
		st.assume(ex.typeInv(p.Type(), v, alloc))
		if isRefType(ex.env.resolve(p.Type())) && v.T != nil {
			st.assume(Neq(v.T, IntLit(0)))
		}
		_ = i
		fargs = append(fargs, v)
	}
	ex.trusted["assumed: "+shortKey(cs.Key)+" calls the function passed as "+cs.Invokes[n]+" once, with non-nil arguments"] = true
	ex.staticCall(st, fr, fv.Fn, fv.Bind, fargs, instr, func(st2 *State, _ *Val) {
		ex.invokeFuncArgs(st2, fr, cs, sig, args, instr, n+1, k)
	})
}

// hasLoop: does the function's control-flow graph contain a cycle?
func hasLoop(fn *ssa.Function) bool {
	state := map[*ssa.BasicBlock]int{}
	var dfs func(b *ssa.BasicBlock) bool
	dfs = func(b *ssa.BasicBlock) bool {
		state[b] = 1
		for _, s := range b.Succs {
			if state[s] == 1 {
				return true
			}
			if state[s] == 0 && dfs(s) {
				return true
			}
		}
		state[b] = 2
		return false
	}
	return len(fn.Blocks) > 0 && dfs(fn.Blocks[0])
}

// onInlineStack: is fn already being executed in place on this call chain (recursion)?
func (ex *Exec) onInlineStack(fr *Frame, fn *ssa.Function) bool {
	n := 0
	for f := fr; f != nil; f = f.parent {
		if f.fn == fn {
			return true
		}
		n++
		if n > 6 {
			return true
		}
	}
	return false
}

func (ex *Exec) inlineCall(st *State, fr *Frame, body *ssa.Function, cs *FuncSpec, subst map[*types.TypeParam]types.Type, binds []*Val, args []*Val, instr ssa.Instruction, k func(st *State, res *Val)) {
	if len(body.Blocks) == 0 {
		panic(oos("cannot inline " + funcKey(body) + ": no body"))
	}
	depth := 0
	for f := fr; f != nil; f = f.parent {
		depth++
		if f.fn == body && depth > 1 {
			panic(oos("recursive inlining of " + funcKey(body)))
		}
	}
	if depth > 12 {
		panic(oos("inlining too deep"))
	}
	ex.frameN++
	nf := &Frame{id: ex.frameN, fn: body, spec: cs, subst: subst, parent: fr}
	for i, p := range body.Params {
		st.regs[p] = args[i]
	}
	for i, fv := range body.FreeVars {
		if i < len(binds) {
			st.regs[fv] = binds[i]
		}
	}
	nf.entry = st.clone()
	nf.ret = func(st2 *State, rs []*Val) {
		ex.env.subst = fr.subst
		k(st2, tupleOrSingle(rs))
	}
	if _, ok := ex.siteOrd[body.Blocks[0].Instrs[0]]; !ok {
		ex.numberSites(body)
	}
	ex.runBlock(st, nf, body.Blocks[0], nil)
}

// invokeCall: interface method call, resolved by the interface's contract.
func (ex *Exec) invokeCall(st *State, fr *Frame, call *ssa.CallCommon, recv *Val, args []*Val, instr ssa.Instruction, k func(st *State, res *Val)) {
	it := ex.env.resolve(call.Value.Type())
	if tp, ok := it.(*types.TypeParam); ok {
		// method call on a value of type-parameter type: use the contract of the constraint interface
		it = tp.Constraint()
	}
	m := call.Method
	key := ""
	if n, ok := types.Unalias(it).(*types.Named); ok {
		pkg := ""
		if n.Obj().Pkg() != nil {
			pkg = n.Obj().Pkg().Path()
		}
		key = pkg + ".(" + n.Obj().Name() + ")." + m.Name()
	} else {
		key = "(" + it.String() + ")." + m.Name()
	}
	if ex.tryDevirt(st, fr, call, recv, args, instr, k) {
		return
	}
	if key == ".(error).Error" {
		// error text: an uninterpreted function of the error value (Error() is deterministic: assumption)
		ex.trusted["error.Error() is a pure function of the error value (errText)"] = true
		name := "sf_errText_" + sanitizeName(string(SRef))
		ex.env.d.Func(name, ex.strSort(), SRef)
		k(st, scalar(ex.env.d.Apply(name, recv.T)))
		return
	}
	cs := ex.P.Specs.For(key, ex.prop)
	if cs == nil {
		panic(oos("interface call " + key + " has no contract"))
	}
	if cs.Assumed {
		ex.trusted["assumed interface contract: "+shortKey(key)] = true
	}
	ex.callees[shortKey(key)] = true
	subst := map[*types.TypeParam]types.Type{}
	for k2, v := range fr.subst {
		subst[k2] = v
	}
	if n, ok := types.Unalias(it).(*types.Named); ok && n.TypeArgs() != nil {
		tps := n.Origin().TypeParams()
		for i := 0; i < tps.Len(); i++ {
			subst[tps.At(i)] = n.TypeArgs().At(i)
		}
	}
	sig := m.Type().(*types.Signature)
	if n, ok := types.Unalias(it).(*types.Named); ok {
		// use the origin's method signature so type parameters are substituted by subst
		on := n.Origin()
		if oi, ok := on.Underlying().(*types.Interface); ok {
			for i := 0; i < oi.NumMethods(); i++ {
				if oi.Method(i).Name() == m.Name() {
					sig = oi.Method(i).Type().(*types.Signature)
				}
			}
		}
	}
	saved := ex.env.subst
	ex.env.subst = subst
	all := append([]*Val{recv}, args...)
	res := ex.callContractSig(st, fr, cs, sig, it, all, instr, pkgOfType(it))
	ex.env.subst = saved
	k(st, res)
}

func pkgOfType(t types.Type) *types.Package {
	if n, ok := types.Unalias(t).(*types.Named); ok {
		return n.Obj().Pkg()
	}
	return nil
}

// dynamicCall: call of a function value of a named func type with a contract `(T).call`.
func (ex *Exec) dynamicCall(st *State, fr *Frame, call *ssa.CallCommon, fnv *Val, args []*Val, instr ssa.Instruction, k func(st *State, res *Val)) {
	ft := ex.env.resolve(call.Value.Type())
	n, ok := types.Unalias(ft).(*types.Named)
	if !ok {
		// unnamed function type: contract `func (f func(..)..) call(..)` declared in the package of the caller
		sig, isSig := ft.Underlying().(*types.Signature)
		var pk *types.Package
		if fr.fn.Pkg != nil {
			pk = fr.fn.Pkg.Pkg
		}
		if !isSig || pk == nil {
			panic(oos("call of function value of unnamed type " + ft.String()))
		}
		key := pk.Path() + ".(" + types.TypeString(ft, func(p *types.Package) string { return p.Name() }) + ").call"
		cs := ex.P.Specs.For(key, ex.prop)
		if cs == nil {
			panic(oos("function-typed call " + key + " has no contract"))
		}
		ex.trusted["assumed callback contract: "+shortKey(key)] = true
		if fnv == nil {
			fnv = &Val{T: IntLit(0)}
		}
		ex.nilCheck(st, fnv, instr, "call of nil function")
		all := append([]*Val{fnv}, args...)
		k(st, ex.callContractSig(st, fr, cs, sig, ft, all, instr, pk))
		return
	}
	pkg := ""
	if n.Obj().Pkg() != nil {
		pkg = n.Obj().Pkg().Path()
	}
	key := pkg + ".(" + n.Obj().Name() + ").call"
	cs := ex.P.Specs.For(key, ex.prop)
	if cs == nil {
		panic(oos("function-typed call " + key + " has no contract"))
	}
	ex.trusted["assumed callback contract: "+shortKey(key)] = true
	subst := map[*types.TypeParam]types.Type{}
	for k2, v := range fr.subst {
		subst[k2] = v
	}
	if n.TypeArgs() != nil {
		tps := n.Origin().TypeParams()
		for i := 0; i < tps.Len(); i++ {
			subst[tps.At(i)] = n.TypeArgs().At(i)
		}
	}
	sig := n.Origin().Underlying().(*types.Signature)
	saved := ex.env.subst
	ex.env.subst = subst
	if fnv == nil {
		fnv = &Val{T: IntLit(0)}
	}
	ex.nilCheck(st, fnv, instr, "call of nil function")
	all := append([]*Val{fnv}, args...)
	res := ex.callContractSig(st, fr, cs, sig, ft, all, instr, n.Obj().Pkg())
	ex.env.subst = saved
	k(st, res)
}

func (ex *Exec) callContract(st *State, fr *Frame, cs *FuncSpec, sig *types.Signature, body *ssa.Function, args []*Val, instr ssa.Instruction) *Val {
	var recvT types.Type
	if sig.Recv() != nil {
		recvT = sig.Recv().Type()
	}
	var pkg *types.Package
	if body.Pkg != nil {
		pkg = body.Pkg.Pkg
	} else if body.Object() != nil {
		pkg = body.Object().Pkg()
	}
	return ex.callContractSig(st, fr, cs, sig, recvT, args, instr, pkg)
}

// callContractSig applies a contract at a call site: assert requires,
// havoc the frame, assume ensures.  recvT != nil means args[0] is the receiver.
func (ex *Exec) callContractSig(st *State, fr *Frame, cs *FuncSpec, sig *types.Signature, recvT types.Type, args []*Val, instr ssa.Instruction, pkg *types.Package) *Val {
	nb := ex.nfresh * 1000
	ex.nfresh++
	ctx := &SpecCtx{ex: ex, st: st, names: map[string]*SV{}, pkg: pkg, tparms: map[string]types.Type{}, nbound: &nb}
	for tp := range ex.env.subst {
		ctx.tparms[tp.Obj().Name()] = tp
	}
	// the callee's own type parameter names take precedence
	addTP := func(l *types.TypeParamList) {
		if l == nil {
			return
		}
		for i := 0; i < l.Len(); i++ {
			ctx.tparms[l.At(i).Obj().Name()] = l.At(i)
		}
	}
	if n, ok := types.Unalias(derefType(recvT)).(*types.Named); ok && n != nil {
		addTP(n.Origin().TypeParams())
	}
	addTP(sig.TypeParams())
	addTP(sig.RecvTypeParams())
	i := 0
	if recvT != nil {
		name := cs.RecvName
		if name == "" {
			name = "self"
		}
		ctx.names[name] = &SV{V: args[0], T: recvT}
		i = 1
	}
	for j := 0; j < sig.Params().Len(); j++ {
		name := sig.Params().At(j).Name()
		if j < len(cs.ParamNames) {
			name = cs.ParamNames[j]
		}
		if i+j >= len(args) {
			break
		}
		ctx.names[name] = &SV{V: args[i+j], T: sig.Params().At(j).Type()}
		ctx.names[name+"0"] = ctx.names[name] // entry value (parameters are mutable in the body)
	}
	short := shortKey(cs.Key)
	ord := ex.siteOrd[instr]
	for ci, c := range cs.Requires {
		if !c.appliesTo(ex.prop) {
			continue
		}
		ex.check(st, "pre", fmt.Sprintf("%s/pre:%s#%d.%d%s", ex.fnName(), short, ord, ci+1, labelSuffix(c)), ctx.EvalBool(c.Expr), "precondition of "+short+": "+c.Src, ex.pos(instr))
	}
	if cs.Panics != nil && cs.Panics.appliesTo(ex.prop) {
		ex.check(st, "pre", fmt.Sprintf("%s/pre:%s#%d.nopanic", ex.fnName(), short, ord), Not(ctx.EvalBool(cs.Panics.Expr)), "call of "+short+" must not panic: "+cs.Panics.Src, ex.pos(instr))
	}
	// a callee that is itself a critical section of a monitor (a method of the monitor type that is not
	// `underlock`): if this path has already been inside that monitor, other threads ran in between -
	// the callee's sequential contract applies to an interfered state, not to the one this path last saw
	if recvT != nil && cs.UnderLock == "" && !ex.preOnly && len(args) > 0 && args[0] != nil && args[0].T != nil && ex.calleeLocks(cs) {
		if n, ok := types.Unalias(derefType(ex.env.resolve(recvT))).(*types.Named); ok && n.Obj().Pkg() != nil {
			if m := ex.monitorDecl(n.Obj().Pkg().Path() + "." + n.Obj().Name()); m != nil && st.held["."+m.Lock] {
				// sync.Mutex is not re-entrant
				ex.check(st, "lock", fmt.Sprintf("%s/lock:reentrant-call:%s#%d", ex.fnName(), short, ord), TFalse, "call of "+short+", which acquires "+m.Lock+", while holding it (self-deadlock)", ex.pos(instr))
			} else if m != nil {
				if _, isStruct := n.Underlying().(*types.Struct); isStruct {
					name := "." + m.Lock
					if st.locks[name] > 0 || st.locks["*cut*"] > 0 {
						ex.monitorInterfere(st, fr, m, args[0].T, n)
					}
					st.locks[name]++
				}
			}
		}
	}
	if cs.UnderLock != "" && !ex.preOnly && ex.fn != nil && ex.fn.Name() == "init" && ex.fn.Synthetic != "" {
		ex.trusted["package initialisation runs before any other goroutine can reach the package state"] = true
	} else if cs.UnderLock != "" && !ex.preOnly {
		if !st.held[cs.UnderLock] {
			ex.check(st, "lock-held", fmt.Sprintf("%s/lock-held:%s#%d", ex.fnName(), short, ord), TFalse, "call of "+short+" without holding "+cs.UnderLock, ex.pos(instr))
		} else {
			ex.check(st, "lock-held", fmt.Sprintf("%s/lock-held:%s#%d", ex.fnName(), short, ord), TTrue, short+" called under "+cs.UnderLock, ex.pos(instr))
		}
	}
	if ex.preOnly {
		// `go f(..)`: only the precondition is checked here; the spawned call runs as another thread
		return nil
	}
	// ghost universals of the callee become fresh unknowns that the caller cannot constrain:
	// sound only for clauses of the form  P(g) ==> Q(g); we instantiate them by quantifying.
	pre := st.clone()
	// havoc frame
	targets := ex.evalModifies(ctx, cs.Modifies)
	ex.havocTargets(st, targets)
	mentionsFresh := false
	for _, c := range cs.Ensures {
		if strings.Contains(c.Src, "fresh(") {
			mentionsFresh = true
		}
	}
	if mentionsFresh {
		al := ex.allocArr(st)
		nal := ex.fresh("alloc", al.Sort)
		x := Sym("x!al", SRef)
		st.assume(Forall([]*Term{x}, Implies(Select(al, x), Select(nal, x)), []*Term{Select(nal, x)}))
		st.assume(Not(Select(nal, IntLit(0))))
		st.heap["alloc"] = nal
	}
	// results
	var rs []*Val
	post := *ctx
	post.names = map[string]*SV{}
	for n, v := range ctx.names {
		post.names[n] = v
	}
	post.st = st
	post.old = pre
	for j := 0; j < sig.Results().Len(); j++ {
		rt := sig.Results().At(j).Type()
		v := ex.freshVal(rt, "ret_"+cs.Name)
		st.assume(ex.typeInv(rt, v, ex.allocArr(st)))
		rs = append(rs, v)
		name := fmt.Sprintf("r%d", j)
		sv := &SV{V: v, T: rt}
		post.names[name] = sv
		if j < len(cs.ResultNames) {
			post.names[cs.ResultNames[j]] = sv
		}
		if sig.Results().Len() == 1 {
			post.names["result"] = sv
		}
	}
	// ghost universals: quantified
	var gbound []*Term
	for _, g := range cs.Ghosts {
		t := post.resolveType(g.Type)
		s := ex.env.scalarSort(t)
		b := post.newBound("g_"+g.Name, s)
		gbound = append(gbound, b)
		post.names[g.Name] = &SV{V: scalar(b), T: t}
	}
	for _, c := range cs.Ensures {
		if !c.appliesTo(ex.prop) {
			continue
		}
		t := post.EvalBool(c.Expr)
		if len(gbound) > 0 && mentionsAny(t, gbound) {
			t = Forall(gbound, t)
		}
		st.assume(t)
	}
	return tupleOrSingle(rs)
}

func mentionsAny(t *Term, syms []*Term) bool {
	found := false
	t.walk(func(x *Term) {
		if len(x.Args) == 0 && x.IntVal == nil {
			for _, s := range syms {
				if s.Op == x.Op {
					found = true
				}
			}
		}
	})
	return found
}

func derefType(t types.Type) types.Type {
	if t == nil {
		return nil
	}
	if p, ok := t.Underlying().(*types.Pointer); ok {
		return p.Elem()
	}
	return t
}

// ---- modifies ----

func (ex *Exec) evalModTarget(ctx *SpecCtx, c *Clause) []*modTarget {
	e := c.Expr
	if id, ok := e.(*ast.Ident); ok && id.Name == "everything" {
		return []*modTarget{{kind: "all", src: c.Src}}
	}
	if ix, ok := e.(*ast.IndexExpr); ok {
		if id, ok := ix.Index.(*ast.Ident); ok && id.Name == "all_" {
			base := ctx.eval(ix.X)
			bt := ex.env.resolve(base.T)
			switch tt := bt.Underlying().(type) {
			case *types.Slice:
				return []*modTarget{{kind: "elems", typ: tt.Elem(), sl: base.V.Sl, src: c.Src}}
			case *types.Array:
				return []*modTarget{{kind: "elems", typ: tt.Elem(), sl: ex.arraySlice(base.V, tt), src: c.Src}}
			case *types.Map:
				return []*modTarget{{kind: "map", typ: bt, ref: ex.valTerm(base.V), src: c.Src}}
			}
			ctx.fail("modifies %s: not a slice, array or map", c.Src)
		}
	}
	switch x := e.(type) {
	case *ast.SelectorExpr:
		// walk down to the pointer (or interface, for ghost fields) the path starts from
		var names []string
		var cur ast.Expr = x
		for {
			se, ok := cur.(*ast.SelectorExpr)
			if !ok {
				ctx.fail("modifies %s: no pointer base", c.Src)
			}
			names = append([]string{se.Sel.Name}, names...)
			base := ctx.eval(se.X)
			bt := ex.env.resolve(base.T)
			if gf := ex.ghostField(bt, se.Sel.Name); gf != nil && len(names) == 1 {
				var out []*modTarget
				ex.withOwnerArgs(bt, func() {
					gt := ex.substType(ctx.resolveGhostType(gf))
					gb, field := ex.ghostOwner(gf)
					out = []*modTarget{{kind: "field", base: gb, path: "." + field, typ: gt, ref: ex.valTerm(base.V), src: c.Src}}
				})
				return out
			}
			if pt, ok := bt.Underlying().(*types.Pointer); ok {
				stT := ex.env.resolve(pt.Elem())
				curT := stT
				path := ""
				for _, n := range names {
					obj, index, _ := types.LookupFieldOrMethod(curT, false, ctx.pkgOf(curT), n)
					fv, ok := obj.(*types.Var)
					if !ok || len(index) != 1 {
						ctx.fail("modifies %s: no direct field %s", c.Src, n)
					}
					path += "." + fv.Name()
					curT = ex.env.resolve(fv.Type())
				}
				return []*modTarget{{kind: "field", base: stT, path: path, typ: curT, ref: ex.valTerm(base.V), src: c.Src}}
			}
			cur = se.X
		}
	case *ast.StarExpr:
		base := ctx.eval(x.X)
		pt := ex.env.resolve(base.T).Underlying().(*types.Pointer)
		if l := base.V.Loc; l != nil && l.Kind == LHeap && l.PathS != "" {
			// an interior pointer (&obj.f handed to the callee): the target is that field of the object
			return []*modTarget{{kind: "field", base: l.Base, path: l.PathS, typ: pt.Elem(), ref: l.Ref, src: c.Src}}
		}
		return []*modTarget{{kind: "field", base: ex.env.resolve(pt.Elem()), path: "", typ: pt.Elem(), ref: ex.valTerm(base.V), src: c.Src}}
	case *ast.Ident:
		if gg := ctx.findGhostGlobal(x.Name); gg != nil {
			if _, shadow := ctx.names[x.Name]; !shadow {
				return []*modTarget{{kind: "gglobal", key: ghostGlobalKey(gg), typ: ctx.ghostGlobalType(gg), src: c.Src}}
			}
		}
		base := ctx.eval(x)
		bt := ex.env.resolve(base.T)
		if _, ok := bt.Underlying().(*types.Map); ok {
			return []*modTarget{{kind: "map", typ: bt, ref: ex.valTerm(base.V), src: c.Src}}
		}
	case *ast.CallExpr:
		if id, ok := x.Fun.(*ast.Ident); ok && id.Name == "each" && len(x.Args) >= 4 {
			// each(n, T, cond, n.f1, n.f2, ...): the fields of every object satisfying cond (in the pre-state)
			vn, ok := x.Args[0].(*ast.Ident)
			if !ok {
				ctx.fail("each: first argument must be a variable name")
			}
			t := ctx.resolveType(x.Args[1])
			bv := ctx.newBound(vn.Name, ex.env.scalarSort(t))
			inner := ctx.with(map[string]*SV{vn.Name: {V: scalar(bv), T: t}})
			cond := inner.EvalBool(x.Args[2])
			var out []*modTarget
			for _, fe := range x.Args[3:] {
				sub := inner.ex.evalModTarget(inner, &Clause{Expr: fe, Src: types.ExprString(fe)})
				for _, mt := range sub {
					if mt.kind != "field" {
						ctx.fail("each: only field targets are supported")
					}
					mt.kind = "fieldq"
					mt.bound = bv
					mt.cond = cond
					mt.src = c.Src
					out = append(out, mt)
				}
			}
			return out
		}
		if id, ok := x.Fun.(*ast.Ident); ok && id.Name == "bytesOf" && len(x.Args) == 3 {
			// bytesOf(arrayRef, off, len): the bytes [off, off+len) of a storage array
			a := ctx.eval(x.Args[0])
			off := ctx.term(ctx.eval(x.Args[1]), ex.env.IntS())
			ln := ctx.term(ctx.eval(x.Args[2]), ex.env.IntS())
			return []*modTarget{{kind: "elems", typ: types.Typ[types.Uint8], sl: &SliceV{Arr: ex.valTerm(a.V), Off: off, Len: ln, Cap: ln}, src: c.Src}}
		}
		if id, ok := x.Fun.(*ast.Ident); ok && id.Name == "ops" && len(x.Args) == 1 {
			// ops(ch): the ghost send / receive counters of channel ch (this invocation's operations on it)
			a := ctx.eval(x.Args[0])
			return []*modTarget{{kind: "chanops", ref: ex.valTerm(a.V), src: c.Src}}
		}
		if id, ok := x.Fun.(*ast.Ident); ok && id.Name == "spare" && len(x.Args) == 1 {
			// spare(s): the spare capacity s[len(s):cap(s)] of a slice (written by an in-place append)
			base := ctx.eval(x.Args[0])
			tt, ok := ex.env.resolve(base.T).Underlying().(*types.Slice)
			if !ok || base.V.Sl == nil {
				ctx.fail("spare(%s): not a slice", types.ExprString(x.Args[0]))
			}
			sl := base.V.Sl
			return []*modTarget{{kind: "elems", typ: tt.Elem(), sl: &SliceV{Arr: sl.Arr, Off: Add(sl.Off, sl.Len), Len: Sub(sl.Cap, sl.Len), Cap: Sub(sl.Cap, sl.Len)}, src: c.Src}}
		}
		if id, ok := x.Fun.(*ast.Ident); ok && id.Name == "global" {
			// global(pkgvar)
			sv := ctx.eval(x.Args[0])
			_ = sv
			return []*modTarget{{kind: "global", src: types.ExprString(x.Args[0])}}
		}
	}
	ctx.fail("unsupported modifies target %s", c.Src)
	return nil
}

func (ex *Exec) havocTargets(st *State, targets []*modTarget) {
	for _, t := range targets {
		switch t.kind {
		case "field":
			for _, l := range ex.env.leaves(t.typ) {
				key := ex.fieldKey(t.base, t.path+l.Path)
				cur := ex.heapGet(st, key, ArraySort(SRef, l.Sort))
				nv := ex.fresh("hv", l.Sort)
				st.heap[key] = Store(cur, t.ref, nv)
			}
			v := ex.loadLoc(st, &Loc{Kind: LHeap, Ref: t.ref, Base: t.base, PathS: t.path, Type: t.typ})
			st.assume(ex.typeInv(t.typ, v, nil))
		case "elems":
			ex.havocElems(st, t.typ, t.sl)
		case "fieldq":
			for _, l := range ex.env.leaves(t.typ) {
				key := ex.fieldKey(t.base, t.path+l.Path)
				cur := ex.heapGet(st, key, ArraySort(SRef, l.Sort))
				nv := ex.fresh("hvq", cur.Sort)
				x := Sym(fmt.Sprintf("x!hq%d", ex.nfresh), SRef)
				cond := t.cond.Subst(map[string]*Term{t.bound.Op: x})
				st.assume(Forall([]*Term{x}, Implies(Not(cond), Eq(Select(nv, x), Select(cur, x))), []*Term{Select(nv, x)}))
				st.heap[key] = nv
			}
		case "gglobal":
			for _, l := range ex.env.leaves(t.typ) {
				st.heap[t.key+" "+l.Path] = ex.fresh("hv_gg", l.Sort)
			}
		case "chanops":
			for _, key := range []string{"chan sent", "chan recvd"} {
				arr := ex.heapGet(st, key, ArraySort(SRef, SInt))
				st.heap[key] = Store(arr, t.ref, ex.fresh("hv_ops", SInt))
			}
		case "map":
			mt := ex.env.resolve(t.typ).Underlying().(*types.Map)
			ex.havocMap(st, mt, t.ref)
		case "all":
			for _, key := range []string{"chan sent", "chan recvd"} {
				arr := ex.heapGet(st, key, ArraySort(SRef, SInt))
				st.heap[key] = ex.fresh("hv_all", arr.Sort)
			}
			for key := range st.heap {
				if strings.HasPrefix(key, "F ") || strings.HasPrefix(key, "E ") || strings.HasPrefix(key, "M") {
					cur := st.heap[key]
					st.heap[key] = ex.fresh("hv_all", cur.Sort)
				}
			}
			for key, cur := range ex.initHeap {
				if _, done := st.heap[key]; !done && (strings.HasPrefix(key, "F ") || strings.HasPrefix(key, "E ") || strings.HasPrefix(key, "M")) {
					st.heap[key] = ex.fresh("hv_all", cur.Sort)
				}
			}
		}
	}
}

func (ex *Exec) havocElems(st *State, elem types.Type, sl *SliceV) {
	is := ex.env.IntS()
	for _, l := range ex.env.leaves(elem) {
		key := ex.elemKey(elem, l.Path)
		h := ex.heapGet(st, key, ArraySort(SRef, ArraySort(is, l.Sort)))
		na := ex.fresh("hv_elems", ArraySort(is, l.Sort))
		i := Sym(fmt.Sprintf("i!hv%d", ex.nfresh), is)
		outside := Or(ex.slt(i, sl.Off), ex.sle(ex.iadd(sl.Off, sl.Len), i))
		st.assume(Forall([]*Term{i}, Implies(outside, Eq(Select(na, i), Select(Select(h, sl.Arr), i))), []*Term{Select(na, i)}))
		st.heap[key] = Store(h, sl.Arr, na)
	}
}

// checkFrame emits the obligations that nothing outside the declared
// modifies clause changed with respect to the entry state.
func (ex *Exec) checkFrame(st *State, site string) {
	alloc0 := ex.heap0("alloc", ArraySort(SRef, SBool))
	var keys []string
	for k := range st.heap {
		keys = append(keys, k)
	}
	sort.Strings(keys)
	for _, t := range ex.modTargets {
		if t.kind == "all" {
			return
		}
	}
	owner := ex.env.d.Func("emb_owner", SRef, SRef)
	for _, key := range keys {
		cur := st.heap[key]
		init, ok := ex.initHeap[key]
		if !ok {
			init = ex.heap0(key, cur.Sort)
		}
		if cur == init || cur.String() == init.String() {
			continue
		}
		x := Sym("x!fr", SRef)
		// allocated objects have positive references; negative ones are arrays embedded in an object (and string storage)
		isOld := Or(And(Lt(IntLit(0), x), Select(alloc0, x)), And(Lt(x, IntLit(0)), Select(alloc0, App(owner.Name, SRef, x))))
		switch {
		case strings.HasPrefix(key, "F "):
			var excl []*Term
			for _, t := range ex.modTargets {
				if t.kind != "field" && t.kind != "fieldq" {
					continue
				}
				for _, l := range ex.env.leaves(t.typ) {
					if ex.fieldKey(t.base, t.path+l.Path) == key {
						if t.kind == "field" {
							excl = append(excl, Neq(x, t.ref))
						} else {
							excl = append(excl, Not(t.cond.Subst(map[string]*Term{t.bound.Op: x})))
						}
					}
				}
			}
			// typed heap: the field array of struct T is only meaningful at objects of dynamic type *T
			if parts := strings.SplitN(strings.TrimPrefix(key, "F "), " ", 2); len(parts) == 2 {
				if id, ok := typeTags["*"+parts[0]]; ok {
					excl = append(excl, Eq(ex.dtype(x), IntLit(id)))
				}
			}
			goal := Forall([]*Term{x}, Implies(And(append([]*Term{isOld}, excl...)...), Eq(Select(cur, x), Select(init, x))))
			ex.check(st, "frame", site+":"+key, goal, "frame: "+key+" changed outside the modifies clause", "")
		case strings.HasPrefix(key, "E "):
			is := ex.env.IntS()
			i := Sym("i!fr", is)
			var allowed []*Term
			for _, t := range ex.modTargets {
				if t.kind != "elems" {
					continue
				}
				for _, l := range ex.env.leaves(t.typ) {
					if ex.elemKey(t.typ, l.Path) == key {
						allowed = append(allowed, And(Eq(x, t.sl.Arr), ex.sle(t.sl.Off, i), ex.slt(i, ex.iadd(t.sl.Off, t.sl.Len))))
					}
				}
			}
			goal := Forall([]*Term{x, i}, Implies(And(isOld, Not(Or(allowed...))), Eq(Select(Select(cur, x), i), Select(Select(init, x), i))))
			ex.check(st, "frame", site+":"+key, goal, "frame: elements "+key+" changed outside the modifies clause", "")
		case strings.HasPrefix(key, "Mdom "), strings.HasPrefix(key, "Mval "), strings.HasPrefix(key, "Msize "):
			var excl []*Term
			for _, t := range ex.modTargets {
				if t.kind == "map" {
					excl = append(excl, Neq(x, t.ref))
				}
			}
			goal := Forall([]*Term{x}, Implies(And(append([]*Term{isOld}, excl...)...), Eq(Select(cur, x), Select(init, x))))
			ex.check(st, "frame", site+":"+key, goal, "frame: map "+key+" changed outside the modifies clause", "")
		case key == "chan sent" || key == "chan recvd":
			var excl []*Term
			for _, t := range ex.modTargets {
				if t.kind == "chanops" {
					excl = append(excl, Neq(x, t.ref))
				}
			}
			excl = append(excl, isOld)
			goal := Forall([]*Term{x}, Implies(And(excl...), Eq(Select(cur, x), Select(init, x))))
			ex.check(st, "frame", site+":"+key, goal, "frame: channel operations ("+key+") outside the modifies clause", "")
		case strings.HasPrefix(key, "GG "):
			allowed := false
			for _, t := range ex.modTargets {
				if t.kind == "gglobal" && strings.HasPrefix(key, t.key+" ") {
					allowed = true
				}
			}
			if !allowed {
				ex.check(st, "frame", site+":"+key, Eq(cur, init), "frame: ghost global "+key+" changed", "")
			}
		case strings.HasPrefix(key, "G "):
			allowed := false
			for _, t := range ex.modTargets {
				if t.kind == "global" && strings.Contains(key, "."+t.src+" ") {
					allowed = true
				}
			}
			if !allowed {
				ex.check(st, "frame", site+":"+key, Eq(cur, init), "frame: global "+key+" changed", "")
			}
		}
	}
}

// havocLoop forgets everything the loop body may change.
func (ex *Exec) havocLoop(st *State, fr *Frame, header *ssa.BasicBlock, li *loopInfo) {
	body := li.bodies[header]
	cells := map[*ssa.Alloc]bool{}
	writesHeap := false
	allocs := false
	var rootAlloc func(v ssa.Value) *ssa.Alloc
	rootAlloc = func(v ssa.Value) *ssa.Alloc {
		switch x := v.(type) {
		case *ssa.Alloc:
			return x
		case *ssa.FieldAddr:
			return rootAlloc(x.X)
		case *ssa.IndexAddr:
			return rootAlloc(x.X)
		}
		return nil
	}
	var iters []*ssa.Range
	for b := range body {
		for _, in := range b.Instrs {
			switch x := in.(type) {
			case *ssa.Store:
				if al := rootAlloc(x.Addr); al != nil && !al.Heap {
					cells[al] = true
				} else {
					writesHeap = true
				}
			case *ssa.MapUpdate:
				writesHeap = true
			case *ssa.Alloc:
				if x.Heap {
					allocs = true
				} else {
					cells[x] = true
				}
			case *ssa.MakeSlice, *ssa.MakeMap, *ssa.MakeChan:
				allocs = true
			case *ssa.Next:
				if r, ok := x.Iter.(*ssa.Range); ok {
					iters = append(iters, r)
				}
			case ssa.CallInstruction:
				cc := x.Common()
				if bi, ok := cc.Value.(*ssa.Builtin); ok {
					switch bi.Name() {
					case "copy", "append", "delete", "close":
						writesHeap = true
						if bi.Name() == "append" {
							allocs = true
						}
					}
				} else {
					writesHeap = true
					allocs = true
				}
				for _, a := range cc.Args {
					if al := rootAlloc(a); al != nil && !al.Heap {
						cells[al] = true
					}
				}
			}
		}
	}
	var cl []*ssa.Alloc
	for al := range cells {
		if _, ok := st.cells[al]; ok {
			cl = append(cl, al)
		}
	}
	sort.Slice(cl, func(i, j int) bool { return cl[i].Pos() < cl[j].Pos() || cl[i].Pos() == cl[j].Pos() && cl[i].Name() < cl[j].Name() })
	for _, al := range cl {
		elemT := al.Type().Underlying().(*types.Pointer).Elem()
		name := al.Comment
		if name == "" {
			name = al.Name()
		}
		v := ex.freshVal(elemT, "loop_"+name)
		st.cells[al] = v
		st.assume(ex.typeInv(elemT, v, nil))
	}
	if allocs {
		al := ex.allocArr(st)
		nal := ex.fresh("alloc", al.Sort)
		x := Sym("x!al", SRef)
		st.assume(Forall([]*Term{x}, Implies(Select(al, x), Select(nal, x)), []*Term{Select(nal, x)}))
		st.assume(Not(Select(nal, IntLit(0))))
		st.heap["alloc"] = nal
	}
	if writesHeap {
		ex.havocTargets(st, ex.modTargets)
		// objects allocated on this path may be modified freely
		for _, f := range st.fresh {
			var keys []string
			for key := range st.heap {
				keys = append(keys, key)
			}
			sort.Strings(keys)
			for _, key := range keys {
				cur := st.heap[key]
				if strings.HasPrefix(key, "F "+f.key+" ") {
					_, es := cur.Sort.ArrayParts()
					st.heap[key] = Store(cur, f.ref, ex.fresh("hv_fresh", es))
				}
				if strings.HasPrefix(f.key, "[]") && strings.HasPrefix(key, "E "+f.key[2:]+" ") {
					_, es := cur.Sort.ArrayParts()
					st.heap[key] = Store(cur, f.ref, ex.fresh("hv_fresh", es))
				}
				if strings.HasPrefix(f.key, "map[") && strings.HasPrefix(key, "M") && strings.HasSuffix(strings.SplitN(key, " ", 3)[1], f.key) {
					_, es := cur.Sort.ArrayParts()
					st.heap[key] = Store(cur, f.ref, ex.fresh("hv_fresh", es))
				}
			}
		}
	}
	for _, r := range iters {
		key := ex.iterKey(r)
		if cur, ok := st.heap[key]; ok {
			st.heap[key] = ex.fresh("hv_iter", cur.Sort)
		}
	}
}

// ---- defers ----

func (ex *Exec) runDefers(st *State, fr *Frame, k func(st *State)) {
	ds := st.defers[fr.id]
	if len(ds) == 0 {
		k(st)
		return
	}
	d := ds[len(ds)-1]
	st.defers[fr.id] = ds[:len(ds)-1]
	ex.execCallVals(st, fr, d.call, d.fnv, d.args, d.pos, func(st2 *State, _ *Val) {
		ex.runDefers(st2, fr, k)
	})
}

// ---- builtins ----

func (ex *Exec) callBuiltin(st *State, fr *Frame, b *ssa.Builtin, call *ssa.CallCommon, args []*Val, instr ssa.Instruction, k func(st *State, res *Val)) {
	switch b.Name() {
	case "len", "cap":
		t := ex.env.resolve(call.Args[0].Type())
		switch tt := t.Underlying().(type) {
		case *types.Slice:
			if b.Name() == "len" {
				k(st, scalar(args[0].Sl.Len))
			} else {
				k(st, scalar(args[0].Sl.Cap))
			}
		case *types.Basic:
			k(st, scalar(ex.strLen(args[0].T)))
		case *types.Map:
			k(st, scalar(ex.mapSize(st, args[0].T, tt)))
		case *types.Array:
			k(st, scalar(ex.intConst(tt.Len())))
		case *types.Pointer:
			at := ex.env.resolve(tt.Elem()).Underlying().(*types.Array)
			k(st, scalar(ex.intConst(at.Len())))
		case *types.Chan:
			k(st, scalar(ex.fresh("chanlen", ex.env.IntS())))
		default:
			panic(oos("len of " + t.String()))
		}
	case "copy":
		dt := ex.env.resolve(call.Args[0].Type()).Underlying().(*types.Slice)
		if _, ok := ex.env.resolve(call.Args[1].Type()).Underlying().(*types.Slice); !ok {
			panic(oos("copy from string"))
		}
		n := ex.copyElems(st, dt.Elem(), args[0].Sl, args[1].Sl)
		k(st, scalar(n))
	case "append":
		ex.appendBuiltin(st, call, args, instr, k)
	case "delete":
		mt := ex.env.resolve(call.Args[0].Type()).Underlying().(*types.Map)
		ex.mapDelete(st, args[0].T, mt, ex.valTerm(args[1]))
		k(st, nil)
	case "close":
		ch := ex.valTerm(args[0])
		key := "chan closed"
		cl := ex.heapGet(st, key, ArraySort(SRef, SBool))
		ex.check(st, "panic", ex.site("close", instr), And(Neq(ch, IntLit(0)), Not(Select(cl, ch))), "close of nil or closed channel", ex.pos(instr))
		st.heap[key] = Store(cl, ch, TTrue)
		k(st, nil)
	case "print", "println":
		k(st, nil)
	case "recover":
		k(st, scalar(IntLit(0)))
	case "min", "max":
		a, c := args[0].T, args[1].T
		t := ex.env.resolve(call.Args[0].Type())
		_, signed, _ := intInfo(t)
		var lt *Term
		if a.Sort.IsBV() {
			if signed {
				lt = App("bvslt", SBool, a, c)
			} else {
				lt = App("bvult", SBool, a, c)
			}
		} else {
			lt = Lt(a, c)
		}
		if b.Name() == "min" {
			k(st, scalar(Ite(lt, a, c)))
		} else {
			k(st, scalar(Ite(lt, c, a)))
		}
	case "ssa:wrapnilchk":
		ex.nilCheck(st, args[0], instr, "method value on nil")
		k(st, args[0])
	case "ssa:deferstack":
		k(st, &Val{Fs: []*Val{}})
	default:
		panic(oos("builtin " + b.Name()))
	}
}

// copyElems models copy(dst, src) with memmove semantics; returns the count.
func (ex *Exec) copyElems(st *State, elem types.Type, dst, src *SliceV) *Term {
	is := ex.env.IntS()
	n := Ite(ex.slt(dst.Len, src.Len), dst.Len, src.Len)
	if !n.IsLit() {
		nn := ex.fresh("copy_n", is)
		st.assume(Eq(nn, n))
		n = nn
	}
	for _, l := range ex.env.leaves(elem) {
		key := ex.elemKey(elem, l.Path)
		h := ex.heapGet(st, key, ArraySort(SRef, ArraySort(is, l.Sort)))
		srcA := Select(h, src.Arr)
		dstA := Select(h, dst.Arr)
		na := ex.fresh("copy_arr", ArraySort(is, l.Sort))
		i := Sym(fmt.Sprintf("i!cp%d", ex.nfresh), is)
		in := And(ex.sle(dst.Off, i), ex.slt(i, ex.iadd(dst.Off, n)))
		srcIdx := ex.iadd(ex.isub(i, dst.Off), src.Off)
		st.assume(Forall([]*Term{i}, Eq(Select(na, i), Ite(in, Select(srcA, srcIdx), Select(dstA, i))), []*Term{Select(na, i)}, []*Term{Select(dstA, i)}))
		// the same fact indexed by the source position (gives a trigger on the source array)
		j := Sym(fmt.Sprintf("j!cp%d", ex.nfresh), is)
		inSrc := And(ex.sle(src.Off, j), ex.slt(j, ex.iadd(src.Off, n)))
		dstIdx := ex.iadd(ex.isub(j, src.Off), dst.Off)
		st.assume(Forall([]*Term{j}, Implies(inSrc, Eq(Select(na, dstIdx), Select(srcA, j))), []*Term{Select(srcA, j)}))
		st.heap[key] = Store(h, dst.Arr, na)
	}
	return n
}

func (ex *Exec) appendBuiltin(st *State, call *ssa.CallCommon, args []*Val, instr ssa.Instruction, k func(st *State, res *Val)) {
	stype := ex.env.resolve(call.Args[0].Type()).Underlying().(*types.Slice)
	if _, ok := ex.env.resolve(call.Args[1].Type()).Underlying().(*types.Slice); !ok {
		panic(oos("append of string"))
	}
	s, t := args[0].Sl, args[1].Sl
	newLen := ex.iadd(s.Len, t.Len)
	fits := ex.sle(newLen, s.Cap)
	ex.fork(st, fits, func(st2 *State, inPlace bool) {
		if inPlace {
			dst := &SliceV{Arr: s.Arr, Off: ex.iadd(s.Off, s.Len), Len: t.Len, Cap: t.Len}
			ex.copyElems(st2, stype.Elem(), dst, t)
			k(st2, &Val{Sl: &SliceV{Arr: s.Arr, Off: s.Off, Len: newLen, Cap: s.Cap}})
			return
		}
		arr := ex.newRef(st2, "arr", "[]"+ex.env.typeKey(stype.Elem()))
		ex.zeroElems(st2, arr, stype.Elem())
		ncap := ex.fresh("append_cap", ex.env.IntS())
		st2.assume(And(ex.sle(newLen, ncap), ex.sle(ncap, ex.intConst(maxSliceLen))))
		z := ex.intConst(0)
		ex.copyElems(st2, stype.Elem(), &SliceV{Arr: arr, Off: z, Len: s.Len, Cap: s.Len}, s)
		ex.copyElems(st2, stype.Elem(), &SliceV{Arr: arr, Off: s.Len, Len: t.Len, Cap: t.Len}, t)
		k(st2, &Val{Sl: &SliceV{Arr: arr, Off: z, Len: newLen, Cap: ncap}})
	})
}

// ---- maps ----

func (ex *Exec) mapKeys(mt *types.Map) (dom, size string) {
	tk := ex.env.typeKey(mt)
	return "Mdom " + tk, "Msize " + tk
}

func (ex *Exec) mapDomArr(st *State, mt *types.Map) *Term {
	dk, _ := ex.mapKeys(mt)
	ks := ex.env.scalarSort(mt.Key())
	return ex.heapGet(st, dk, ArraySort(SRef, ArraySort(ks, SBool)))
}

func (ex *Exec) mapHas(st *State, m *Term, mt *types.Map, k *Term) *Term {
	return And(Neq(m, IntLit(0)), Select(Select(ex.mapDomArr(st, mt), m), k))
}

// mapSize: len(m) is the cardinality of the key set; card is an uninterpreted
// function of the key-set array with the finite-set axioms below (instantiated by triggers).
func (ex *Exec) mapSize(st *State, m *Term, mt *types.Map) *Term {
	ks := ex.env.scalarSort(mt.Key())
	return ex.card(Select(ex.mapDomArr(st, mt), m), ks)
}

func (ex *Exec) card(dom *Term, ks Sort) *Term {
	is := ex.env.IntS()
	ds := ArraySort(ks, SBool)
	name := "card_" + sanitizeName(string(ks))
	wit := "cardwit_" + sanitizeName(string(ks))
	if _, ok := ex.env.d.Funcs[name]; !ok {
		ex.env.d.Func(name, is, ds)
		ex.env.d.Func(wit, ks, ds)
		d := Sym("d!cd", ds)
		k := Sym("k!cd", ks)
		cd := func(x *Term) *Term { return App(name, is, x) }
		one, zero := ex.intConst(1), ex.intConst(0)
		ex.trusted["finite-set cardinality axioms for len(map)"] = true
		ex.addAxiom(Forall([]*Term{d}, And(ex.sle(zero, cd(d)), ex.sle(cd(d), ex.intConst(maxSliceLen)), Implies(ex.slt(zero, cd(d)), Select(d, App(wit, ks, d)))), []*Term{cd(d)}))
		st1 := Store(d, k, TTrue)
		ex.addAxiom(Forall([]*Term{d, k}, Eq(cd(st1), ex.iadd(cd(d), Ite(Select(d, k), zero, one))), []*Term{cd(st1)}))
		st0 := Store(d, k, TFalse)
		ex.addAxiom(Forall([]*Term{d, k}, Eq(cd(st0), ex.isub(cd(d), Ite(Select(d, k), one, zero))), []*Term{cd(st0)}))
		ex.addAxiom(Eq(cd(ConstArray(ds, TFalse)), zero))
		ex.addAxiom(Forall([]*Term{d, k}, Implies(Select(d, k), ex.sle(one, cd(d))), []*Term{Select(d, k), cd(d)}))
	}
	return App(name, is, dom)
}

func (ex *Exec) mapValKey(mt *types.Map, leafPath string) string {
	return "Mval " + ex.env.typeKey(mt) + " " + leafPath
}

// mapLookup: m[k].  Invariant of the encoding: the value arrays hold the zero
// value for absent keys (delete and make write zeros; havoc and the initial
// heap carry it as a quantified fact), so no case split is needed here.
func (ex *Exec) mapLookup(st *State, m *Term, mt *types.Map, k *Term) *Val {
	ks := ex.env.scalarSort(mt.Key())
	ex.mapZeroAxioms(mt)
	return ex.buildVal(mt.Elem(), "", func(l Leaf) *Term {
		arr := ex.heapGet(st, ex.mapValKey(mt, l.Path), ArraySort(SRef, ArraySort(ks, l.Sort)))
		return Select(Select(arr, m), k)
	})
}

func (ex *Exec) mapZero(l Leaf) *Term {
	if l.Role == "arr" {
		return IntLit(0)
	}
	return ex.env.zeroLeaf(l)
}

// mapZeroAxioms: typing facts of the initial heap for a map type (once per type).
func (ex *Exec) mapZeroAxioms(mt *types.Map) {
	tk := ex.env.typeKey(mt)
	if ex.recDefs["mapzero "+tk] {
		return
	}
	ex.recDefs["mapzero "+tk] = true
	ks := ex.env.scalarSort(mt.Key())
	dk, _ := ex.mapKeys(mt)
	d0 := ex.heap0(dk, ArraySort(SRef, ArraySort(ks, SBool)))
	x := Sym("m!mz", SRef)
	kk := Sym("k!mz", ks)
	for _, l := range ex.env.leaves(mt.Elem()) {
		h0 := ex.heap0(ex.mapValKey(mt, l.Path), ArraySort(SRef, ArraySort(ks, l.Sort)))
		v := Select(Select(h0, x), kk)
		body := Implies(Not(Select(Select(d0, x), kk)), Eq(v, ex.mapZero(l)))
		if pt := ex.structPtr(l.Type); pt != nil && l.Path == "" {
			body = And(body, Or(Eq(v, IntLit(0)), Eq(ex.dtype(v), ex.typeTag(pt))))
		}
		ex.addAxiom(Forall([]*Term{x, kk}, body, []*Term{v}))
	}
	// the nil map is empty
	ex.addAxiom(Forall([]*Term{kk}, Not(Select(Select(d0, IntLit(0)), kk)), []*Term{Select(Select(d0, IntLit(0)), kk)}))
}

func (ex *Exec) mapFacts(st *State, m *Term, mt *types.Map, k *Term) {}

func (ex *Exec) lookup(st *State, x *ssa.Lookup) *Val {
	t := ex.env.resolve(x.X.Type())
	mt, ok := t.Underlying().(*types.Map)
	if !ok {
		// string index
		base := ex.val(st, x.X)
		idx := ex.idxTerm(st, x.Index)
		n := ex.strLen(base.T)
		goal := And(ex.sle(ex.intConst(0), idx), ex.slt(idx, n))
		ex.check(st, "bounds", ex.site("bounds:index", x), goal, "string index out of range", ex.pos(x))
		st.assume(goal)
		f := ex.env.d.Func("str_at", SBV8, ex.strSort(), ex.env.IntS())
		return scalar(ex.env.d.Apply(f.Name, base.T, idx))
	}
	m := ex.val(st, x.X).T
	k := ex.valTerm(ex.val(st, x.Index))
	ex.lockCheckMap(st, m, x)
	ex.mapFacts(st, m, mt, k)
	v := ex.mapLookup(st, m, mt, k)
	st.assume(ex.typeInv(mt.Elem(), v, nil))
	if x.CommaOk {
		return &Val{Fs: []*Val{v, scalar(ex.mapHas(st, m, mt, k))}}
	}
	return v
}

func (ex *Exec) makeMap(st *State, x *ssa.MakeMap) *Val {
	mt := ex.env.resolve(x.Type()).Underlying().(*types.Map)
	ref := ex.newRef(st, "map", ex.env.typeKey(mt))
	dk, _ := ex.mapKeys(mt)
	ks := ex.env.scalarSort(mt.Key())
	dom := ex.heapGet(st, dk, ArraySort(SRef, ArraySort(ks, SBool)))
	st.heap[dk] = Store(dom, ref, ConstArray(ArraySort(ks, SBool), TFalse))
	ex.mapZeroAxioms(mt)
	for _, l := range ex.env.leaves(mt.Elem()) {
		key := ex.mapValKey(mt, l.Path)
		arr := ex.heapGet(st, key, ArraySort(SRef, ArraySort(ks, l.Sort)))
		z := ex.mapZero(l)
		var ca *Term
		if z.IsLit() || z.IsTrue() || z.IsFalse() {
			ca = ConstArray(ArraySort(ks, l.Sort), z)
		} else {
			ca = ex.fresh("mzeros", ArraySort(ks, l.Sort))
			i := Sym(fmt.Sprintf("k!mzz%d", ex.nfresh), ks)
			st.assume(Forall([]*Term{i}, Eq(Select(ca, i), z), []*Term{Select(ca, i)}))
		}
		st.heap[key] = Store(arr, ref, ca)
	}
	return scalar(ref)
}

func (ex *Exec) mapUpdate(st *State, x *ssa.MapUpdate) {
	mt := ex.env.resolve(x.Map.Type()).Underlying().(*types.Map)
	m := ex.val(st, x.Map).T
	k := ex.valTerm(ex.val(st, x.Key))
	v := ex.val(st, x.Value)
	ex.check(st, "nil", ex.site("nil:map", x), Neq(m, IntLit(0)), "assignment to entry in nil map", ex.pos(x))
	st.assume(Neq(m, IntLit(0)))
	ex.lockCheckMap(st, m, x)
	ex.mapFacts(st, m, mt, k)
	ex.mapStore(st, m, mt, k, v)
}

func (ex *Exec) mapStore(st *State, m *Term, mt *types.Map, k *Term, v *Val) {
	dk, _ := ex.mapKeys(mt)
	ks := ex.env.scalarSort(mt.Key())
	dom := ex.heapGet(st, dk, ArraySort(SRef, ArraySort(ks, SBool)))
	st.heap[dk] = Store(dom, m, Store(Select(dom, m), k, TTrue))
	ex.flatten(mt.Elem(), v, "", func(l Leaf, t *Term) {
		key := ex.mapValKey(mt, l.Path)
		arr := ex.heapGet(st, key, ArraySort(SRef, ArraySort(ks, l.Sort)))
		st.heap[key] = Store(arr, m, Store(Select(arr, m), k, t))
	})
}

func (ex *Exec) mapDelete(st *State, m *Term, mt *types.Map, k *Term) {
	dk, _ := ex.mapKeys(mt)
	ks := ex.env.scalarSort(mt.Key())
	dom := ex.heapGet(st, dk, ArraySort(SRef, ArraySort(ks, SBool)))
	st.heap[dk] = Store(dom, m, Store(Select(dom, m), k, TFalse))
	for _, l := range ex.env.leaves(mt.Elem()) {
		key := ex.mapValKey(mt, l.Path)
		arr := ex.heapGet(st, key, ArraySort(SRef, ArraySort(ks, l.Sort)))
		st.heap[key] = Store(arr, m, Store(Select(arr, m), k, ex.mapZero(l)))
	}
}

func (ex *Exec) havocMap(st *State, mt *types.Map, ref *Term) {
	dk, _ := ex.mapKeys(mt)
	ks := ex.env.scalarSort(mt.Key())
	dom := ex.heapGet(st, dk, ArraySort(SRef, ArraySort(ks, SBool)))
	st.heap[dk] = Store(dom, ref, ex.fresh("hv_dom", ArraySort(ks, SBool)))
	ndom := Select(st.heap[dk], ref)
	for _, l := range ex.env.leaves(mt.Elem()) {
		key := ex.mapValKey(mt, l.Path)
		arr := ex.heapGet(st, key, ArraySort(SRef, ArraySort(ks, l.Sort)))
		nv := ex.fresh("hv_val", ArraySort(ks, l.Sort))
		i := Sym(fmt.Sprintf("k!hvm%d", ex.nfresh), ks)
		body := Implies(Not(Select(ndom, i)), Eq(Select(nv, i), ex.mapZero(l)))
		if pt := ex.structPtr(l.Type); pt != nil && l.Path == "" {
			body = And(body, Or(Eq(Select(nv, i), IntLit(0)), Eq(ex.dtype(Select(nv, i)), ex.typeTag(pt))))
		}
		st.assume(Forall([]*Term{i}, body, []*Term{Select(nv, i)}))
		st.heap[key] = Store(arr, ref, nv)
	}
}

// ---- range over maps ----

func (ex *Exec) iterKey(r *ssa.Range) string {
	return fmt.Sprintf("iter %s.%s", r.Parent().Name(), r.Name())
}

// currentRangeVisited returns the visited set of the unique map range of the
// function under verification.
func (ex *Exec) currentRangeVisited(st *State) *Term {
	var found *Term
	n := 0
	for k, v := range st.heap {
		if strings.HasPrefix(k, "iter ") {
			found = v
			n++
		}
	}
	if n != 1 {
		return nil
	}
	return found
}

func (ex *Exec) rangeInit(st *State, x *ssa.Range) *Val {
	mt, ok := ex.env.resolve(x.X.Type()).Underlying().(*types.Map)
	if !ok {
		panic(oos("range over " + x.X.Type().String()))
	}
	ks := ex.env.scalarSort(mt.Key())
	st.heap[ex.iterKey(x)] = ConstArray(ArraySort(ks, SBool), TFalse)
	return ex.val(st, x.X)
}

func (ex *Exec) rangeNext(st *State, x *ssa.Next) func(k func(*State)) {
	r, ok := x.Iter.(*ssa.Range)
	if !ok || x.IsString {
		panic(oos("next over string"))
	}
	mt := ex.env.resolve(r.X.Type()).Underlying().(*types.Map)
	m := ex.val(st, r).T
	ks := ex.env.scalarSort(mt.Key())
	key := ex.iterKey(r)
	return func(k func(*State)) {
		// two outcomes: exhausted, or some unvisited key
		stDone := st.clone()
		ex.npaths++
		visited := ex.heapGet(st, key, ArraySort(ks, SBool))
		dom := Select(ex.mapDomArr(st, mt), m)
		// (a) an unvisited key exists
		kk := ex.fresh("rangekey", ks)
		st.assume(And(Neq(m, IntLit(0)), Select(dom, kk), Not(Select(visited, kk))))
		st.heap[key] = Store(visited, kk, TTrue)
		v := ex.mapLookup(st, m, mt, kk)
		st.assume(ex.typeInv(mt.Key(), scalar(kk), nil))
		st.regs[x] = &Val{Fs: []*Val{scalar(TTrue), scalar(kk), v}}
		st.pathID += "n"
		func() {
			defer func() {
				if rr := recover(); rr != nil {
					if _, ok := rr.(pathAbort); ok {
						return
					}
					panic(rr)
				}
			}()
			k(st)
		}()
		// (b) exhausted
		q := Sym(fmt.Sprintf("k!rg%d", ex.nfresh), ks)
		ex.nfresh++
		stDone.assume(Or(Eq(m, IntLit(0)), Forall([]*Term{q}, Implies(Select(dom, q), Select(visited, q)))))
		stDone.regs[x] = &Val{Fs: []*Val{scalar(TFalse), ex.zeroVal(mt.Key()), ex.zeroVal(mt.Elem())}}
		stDone.pathID += "x"
		func() {
			defer func() {
				if rr := recover(); rr != nil {
					if _, ok := rr.(pathAbort); ok {
						return
					}
					panic(rr)
				}
			}()
			k(stDone)
		}()
	}
}

// ---- interfaces ----

var typeTags = map[string]int64{}

func (ex *Exec) typeTag(t types.Type) *Term {
	return ex.typeTagKey(ex.env.typeKey(t))
}

func (ex *Exec) typeTagKey(k string) *Term {
	id, ok := typeTags[k]
	if !ok {
		id = int64(len(typeTags) + 1)
		typeTags[k] = id
	}
	return IntLit(id)
}

func (ex *Exec) dtype(r *Term) *Term {
	f := ex.env.d.Func("dtype", SInt, SRef)
	return ex.env.d.Apply(f.Name, r)
}

func (ex *Exec) dynTypeIs(r *Term, t types.Type) *Term {
	return And(Neq(r, IntLit(0)), Eq(ex.dtype(r), ex.typeTag(t)))
}

func (ex *Exec) makeInterface(st *State, x *ssa.MakeInterface) *Val {
	v := ex.val(st, x.X)
	t := ex.env.resolve(x.X.Type())
	switch t.Underlying().(type) {
	case *types.Pointer:
		if v.Loc != nil && !(v.Loc.Kind == LHeap && v.Loc.PathS == "") {
			// pointer to a local: opaque box
			r := ex.fresh("box", SRef)
			st.assume(Gt(r, IntLit(0)))
			return scalar(r)
		}
		r := ex.valTerm(v)
		st.assume(Implies(Neq(r, IntLit(0)), Eq(ex.dtype(r), ex.typeTag(t))))
		return scalar(r)
	case *types.Map, *types.Chan, *types.Signature:
		return scalar(ex.valTerm(v))
	}
	// value types are boxed: fresh reference with unbox functions for the leaves
	r := ex.fresh("box", SRef)
	st.assume(Gt(r, IntLit(0)))
	st.assume(Eq(ex.dtype(r), ex.typeTag(t)))
	func() {
		defer func() { recover() }()
		ex.flatten(t, v, "", func(l Leaf, tm *Term) {
			f := ex.env.d.Func(symSafe("unbox "+ex.env.typeKey(t)+" "+l.Path), l.Sort, SRef)
			st.assume(Eq(App(f.Name, l.Sort, r), tm))
		})
	}()
	return scalar(r)
}

func (ex *Exec) typeAssert(st *State, x *ssa.TypeAssert) *Val {
	v := ex.val(st, x.X)
	r := ex.valTerm(v)
	to := ex.env.resolve(x.AssertedType)
	var ok *Term
	var res *Val
	if _, isIface := to.Underlying().(*types.Interface); isIface {
		f := ex.env.d.Func(symSafe("implements "+ex.env.typeKey(to)), SBool, SInt)
		ok = And(Neq(r, IntLit(0)), ex.env.d.Apply(f.Name, ex.dtype(r)))
		res = scalar(r)
	} else {
		at := ex.env.d.Func("any_type", SBool, SRef)
		ok = Or(ex.dynTypeIs(r, to), And(Neq(r, IntLit(0)), ex.env.d.Apply(at.Name, r)))
		switch to.Underlying().(type) {
		case *types.Pointer, *types.Map, *types.Chan, *types.Signature:
			res = scalar(r)
		default:
			res = ex.buildVal(to, "", func(l Leaf) *Term {
				f := ex.env.d.Func(symSafe("unbox "+ex.env.typeKey(to)+" "+l.Path), l.Sort, SRef)
				return App(f.Name, l.Sort, r)
			})
		}
	}
	if x.CommaOk {
		zero := ex.zeroVal(to)
		// result is the zero value when the assertion fails
		var out *Val
		if res.T != nil {
			out = scalar(Ite(ok, res.T, ex.valTerm(zero)))
		} else {
			out = res
		}
		return &Val{Fs: []*Val{out, scalar(ok)}}
	}
	ex.check(st, "panic", ex.site("typeassert", x), ok, "type assertion to "+to.String()+" may fail", ex.pos(x))
	st.assume(ok)
	return res
}

// strData: storage identity of a string's bytes (never writable memory)
func (ex *Exec) strData(s *Term) *Term {
	ex.env.d.Func("strdata", SRef, ex.strSort())
	ex.env.d.Func("is_strdata", SBool, SRef)
	x := Sym("s!sd", ex.strSort())
	app := App("strdata", SRef, x)
	tag := ex.env.d.Func("emb_tag", SInt, SRef)
	ex.addAxiom(Forall([]*Term{x}, And(Lt(app, IntLit(0)), App("is_strdata", SBool, app), Eq(App(tag.Name, SInt, app), IntLit(0))), []*Term{app}))
	if s == nil {
		return nil
	}
	return App("strdata", SRef, s)
}

// ---- errors ----

func (ex *Exec) errIsFn() string {
	ex.env.d.Func("errIs", SBool, SRef, SRef)
	e := Sym("e!ei", SRef)
	t := Sym("t!ei", SRef)
	app := func(a, b *Term) *Term { return App("errIs", SBool, a, b) }
	ex.addAxiom(Forall([]*Term{e}, Implies(Neq(e, IntLit(0)), app(e, e)), []*Term{app(e, e)}))
	ex.addAxiom(Forall([]*Term{t}, Eq(app(IntLit(0), t), Eq(t, IntLit(0))), []*Term{app(IntLit(0), t)}))
	ex.addAxiom(Forall([]*Term{e}, Implies(Neq(e, IntLit(0)), Not(app(e, IntLit(0)))), []*Term{app(e, IntLit(0))}))
	return "errIs"
}

func (ex *Exec) errIs(e, t *Term) *Term {
	return App(ex.errIsFn(), SBool, e, t)
}

// ---- globals ----

func (ex *Exec) globalOf(o *types.Var) *ssa.Global {
	sp := ex.P.SPkgs[o.Pkg().Path()]
	if sp == nil {
		return nil
	}
	g, _ := sp.Members[o.Name()].(*ssa.Global)
	return g
}

func (ex *Exec) readGlobal(st *State, loc *Loc) *Val {
	v := ex.loadGlobal(st, loc)
	g := loc.Global
	gs := ex.P.Specs.Globals[g.Pkg.Pkg.Path()+"."+g.Name()]
	if _, assigned := st.heap[ex.globalKey(g)+" "]; assigned {
		// the function under verification assigned the global: the declared facts speak about initial values only
		gs = nil
	}
	if gs != nil && v.T != nil && loc.PathS == "" {
		if gs.NonNil {
			st.assume(Gt(v.T, IntLit(0)))
			st.assume(Select(ex.heap0("alloc", ArraySort(SRef, SBool)), v.T))
		}
		if gs.Sentinel {
			ex.sentinelFacts(st, g, v.T)
		}
	}
	return v
}

func (ex *Exec) sentinelFacts(st *State, g *ssa.Global, t *Term) {
	// distinct from all other sentinels read so far; errIs(S, x) <=> x == S
	name := g.Pkg.Pkg.Path() + "." + g.Name()
	if st.ghost == nil {
		st.ghost = map[string]*Val{}
	}
	x := Sym("x!sent", SRef)
	ex.addAxiom(Forall([]*Term{x}, Eq(ex.errIs(t, x), Eq(x, t)), []*Term{ex.errIs(t, x)}))
	for other, ov := range ex.sentinels {
		if other != name {
			ex.addAxiom(Neq(t, ov))
		}
	}
	if ex.sentinels == nil {
		ex.sentinels = map[string]*Term{}
	}
	ex.sentinels[name] = t
}

// ---- ghost fields ----

func (ex *Exec) ghostField(t types.Type, name string) *GhostField {
	t = derefType(ex.env.resolve(t))
	n, ok := types.Unalias(t).(*types.Named)
	if !ok {
		return nil
	}
	pkg := ""
	if n.Obj().Pkg() != nil {
		pkg = n.Obj().Pkg().Path()
	}
	return ex.P.Specs.Ghosts[pkg+"."+n.Obj().Name()+"."+name]
}

// ghostOwner returns the synthetic base type under which a ghost field is
// stored (independent of type arguments; aliases share the owner of their target).
var ghostOwners = map[string]*types.Named{}

func (ex *Exec) ghostOwner(gf *GhostField) (types.Type, string) {
	owner := gf.PkgPath + "." + gf.TypeName
	field := gf.Field
	if gf.Alias != "" {
		i := strings.LastIndex(gf.Alias, ".")
		owner = gf.Alias[:i]
		field = gf.Alias[i+1:]
	}
	n, ok := ghostOwners[owner]
	if !ok {
		tn := types.NewTypeName(0, nil, "ghost:"+shortKey(owner), nil)
		n = types.NewNamed(tn, types.NewStruct(nil, nil), nil)
		ghostOwners[owner] = n
	}
	return n, field
}

func (c *SpecCtx) resolveGhostType(gf *GhostField) types.Type {
	g := gf
	if gf.Alias != "" {
		if t := c.ex.P.Specs.Ghosts[gf.Alias]; t != nil {
			g = t
		}
	}
	var pkg *types.Package
	if sp := c.ex.P.SPkgs[g.PkgPath]; sp != nil {
		pkg = sp.Pkg
	}
	cc := *c
	cc.pkg = pkg
	cc.tparms = map[string]types.Type{}
	for k, v := range c.tparms {
		cc.tparms[k] = v
	}
	// the owner type's own type parameters
	if pkg != nil {
		if obj, ok := pkg.Scope().Lookup(g.TypeName).(*types.TypeName); ok {
			if n, ok := obj.Type().(*types.Named); ok && n.TypeParams() != nil {
				for i := 0; i < n.TypeParams().Len(); i++ {
					tp := n.TypeParams().At(i)
					cc.tparms[tp.Obj().Name()] = tp
				}
			}
		}
	}
	return cc.resolveType(g.Type)
}

// withOwnerArgs runs f with the type arguments of the (instantiated) owner type substituted.
func (ex *Exec) withOwnerArgs(t types.Type, f func()) {
	t = derefType(ex.env.resolve(t))
	n, ok := types.Unalias(t).(*types.Named)
	if !ok || n.TypeArgs() == nil || n.TypeArgs().Len() == 0 {
		f()
		return
	}
	saved := ex.env.subst
	ns := map[*types.TypeParam]types.Type{}
	for k, v := range saved {
		ns[k] = v
	}
	tps := n.Origin().TypeParams()
	for i := 0; i < tps.Len(); i++ {
		if tps.At(i) != n.TypeArgs().At(i) {
			ns[tps.At(i)] = n.TypeArgs().At(i)
		}
	}
	ex.env.subst = ns
	defer func() { ex.env.subst = saved }()
	f()
}

func (c *SpecCtx) loadGhostField(x *SV, t types.Type, gf *GhostField) *SV {
	var res *SV
	c.ex.withOwnerArgs(t, func() {
		gt := c.resolveGhostType(gf)
		base, field := c.ex.ghostOwner(gf)
		loc := &Loc{Kind: LHeap, Ref: c.ex.valTerm(x.V), Base: base, PathS: "." + field, Type: gt}
		v := c.ex.loadLoc(c.st, loc)
		// resolve the ghost type now so that it stays meaningful outside this substitution
		res = &SV{V: v, T: c.ex.substType(gt)}
	})
	return res
}

// substType applies the current substitution to seq types (the only ghost
// types that mention type parameters).
func (ex *Exec) substType(t types.Type) types.Type {
	if el, ok := isSeqType(t); ok {
		r := ex.env.resolve(el)
		return seqType(r, ex.env.typeKey(r))
	}
	return ex.env.resolve(t)
}

// ---- locks, select, recv (sequential defaults) ----

// monitorFor returns the monitor declaration guarding the given location, if any.
func (ex *Exec) monitorFor(loc *Loc) *MonitorSpec {
	if loc.Kind != LHeap || loc.PathS == "" {
		return nil
	}
	n, ok := types.Unalias(ex.env.resolve(loc.Base)).(*types.Named)
	if !ok || n.Obj().Pkg() == nil {
		return nil
	}
	first := strings.SplitN(strings.TrimPrefix(loc.PathS, "."), ".", 2)[0]
	tname := n.Obj().Name()
	for _, m := range ex.monitors() {
		if m.PkgPath != n.Obj().Pkg().Path() {
			continue
		}
		for _, g := range m.Guards {
			if (m.TypeName == tname && g == first) || g == tname+"."+first {
				return m
			}
		}
	}
	return nil
}

func (ex *Exec) lockCheck(st *State, loc *Loc, in ssa.Instruction) {
	m := ex.monitorFor(loc)
	if m == nil {
		return
	}
	// objects allocated by this call are thread-local until published
	for _, f := range st.fresh {
		if f.ref.String() == loc.Ref.String() {
			return
		}
	}
	if !st.held["."+m.Lock] {
		ex.check(st, "lock-held", ex.site("lock-held", in), TFalse, "access to guarded field "+loc.PathS+" without holding "+m.Lock, ex.pos(in))
	} else {
		ex.check(st, "lock-held", ex.site("lock-held", in), TTrue, "guarded field "+loc.PathS+" accessed under "+m.Lock, ex.pos(in))
	}
}

func (ex *Exec) lockCheckMap(st *State, m *Term, in ssa.Instruction) {
	// a map reached through a guarded field: (select |.. F T .guard| obj)
	str := m.String()
	for _, mon := range ex.monitors() {
		for _, g := range mon.Guards {
			if strings.Contains(g, ".") {
				continue
			}
			if strings.Contains(str, mon.TypeName) && strings.Contains(str, " ."+g+"|") {
				if !st.held["."+mon.Lock] {
					ex.check(st, "lock-held", ex.site("lock-held:map", in), TFalse, "access to guarded map "+g+" without holding "+mon.Lock, ex.pos(in))
				} else {
					ex.check(st, "lock-held", ex.site("lock-held:map", in), TTrue, "guarded map "+g+" accessed under "+mon.Lock, ex.pos(in))
				}
				return
			}
		}
	}
}

// execSelect: a non-deterministic choice among the cases (every case is
// explored).  A completed receive on channel c is recorded as recvReady(c), so
// that contracts of channel-returning functions (ctx.Done) can say what it implies.
func (ex *Exec) execSelect(st *State, fr *Frame, x *ssa.Select, k func(*State)) {
	if len(st.held) > 0 && x.Blocking {
		ex.check(st, "lock", ex.site("lock:blocking", x), TFalse, "blocking select while holding a lock", ex.pos(x))
	}
	tup := x.Type().(*types.Tuple)
	ncase := len(x.States)
	total := ncase
	if !x.Blocking {
		total++
	}
	rr := ex.env.d.Func("recvReady", SBool, SRef)
	for i := 0; i < total; i++ {
		s2 := st
		if i < total-1 {
			s2 = st.clone()
			ex.npaths++
		}
		s2.pathID += fmt.Sprintf("s%d", i)
		idx := i
		if i >= ncase {
			idx = -1 // default
		}
		vals := []*Val{scalar(ex.intConst(int64(idx))), scalar(ex.fresh("recv_ok", SBool))}
		for j := 2; j < tup.Len(); j++ {
			vals = append(vals, ex.freshVal(tup.At(j).Type(), "recv"))
		}
		if idx >= 0 {
			ch := ex.valTerm(ex.val(s2, x.States[idx].Chan))
			if x.States[idx].Dir == types.RecvOnly {
				s2.assume(App(rr.Name, SBool, ch))
				ex.chanCount(s2, "chan recvd", ch)
			} else {
				ex.chanCount(s2, "chan sent", ch)
			}
		}
		s2.regs[x] = &Val{Fs: vals}
		func() {
			defer func() {
				if r := recover(); r != nil {
					if _, ok := r.(pathAbort); ok {
						return
					}
					panic(r)
				}
			}()
			k(s2)
		}()
	}
}

// chanCount increments the ghost counter (sends / completed receives performed by this invocation) of a channel.
func (ex *Exec) chanCount(st *State, key string, ch *Term) {
	arr := ex.heapGet(st, key, ArraySort(SRef, SInt))
	st.heap[key] = Store(arr, ch, Add(Select(arr, ch), IntLit(1)))
}

func (ex *Exec) execRecv(st *State, fr *Frame, x *ssa.UnOp, ch *Val) func(k func(*State)) {
	ex.chanCount(st, "chan recvd", ex.valTerm(ch))
	// a receive blocks until a value arrives or the channel is closed; the received value is arbitrary
	elemT := x.Type()
	if x.CommaOk {
		v := ex.freshVal(elemT.(*types.Tuple).At(0).Type(), "recv")
		st.regs[x] = &Val{Fs: []*Val{v, scalar(ex.fresh("recv_ok", SBool))}}
	} else {
		st.regs[x] = ex.freshVal(elemT, "recv")
	}
	if len(st.held) > 0 {
		ex.check(st, "lock", ex.site("lock:blocking", x), TFalse, "blocking channel receive while holding a lock", ex.pos(x))
	}
	return nil
}

// ---- intrinsics: library functions with built-in semantics ----

func (ex *Exec) intrinsic(st *State, fr *Frame, key string, callee *ssa.Function, args []*Val, instr ssa.Instruction, k func(st *State, res *Val)) bool {
	switch key {
	case "fmt.Errorf":
		ex.trusted["fmt.Errorf returns a non-nil error that wraps exactly its %w operands"] = true
		e := ex.newRef(st, "err", "error")
		// find %w operands
		format := ""
		if c, ok := callArg(instr, 0).(*ssa.Const); ok && c.Value != nil && c.Value.Kind() == constant.String {
			format = constant.StringVal(c.Value)
		}
		wrapped := ex.wrappedOperands(st, format, args)
		x := Sym(fmt.Sprintf("t!ef%d", ex.nfresh), SRef)
		ex.nfresh++
		var alts []*Term
		alts = append(alts, Eq(x, e))
		for _, w := range wrapped {
			alts = append(alts, And(Neq(w, IntLit(0)), ex.errIs(w, x)))
		}
		st.assume(Forall([]*Term{x}, Eq(ex.errIs(e, x), Or(alts...)), []*Term{ex.errIs(e, x)}))
		k(st, scalar(e))
		return true
	case "fmt.Sprintf", "fmt.Sprint", "fmt.Sprintln":
		if key == "fmt.Sprintf" {
			if r := ex.sprintfConcat(st, instr, args); r != nil {
				k(st, scalar(r))
				return true
			}
		}
		r := ex.fresh("sprintf", ex.strSort())
		st.assume(ex.strLenFacts(r))
		k(st, scalar(r))
		return true
	case "fmt.Println", "fmt.Printf", "fmt.Print", "fmt.Fprintf", "fmt.Fprintln", "fmt.Fprint",
		"log.Printf", "log.Println", "log.Print":
		// diagnostics output: no effect on the program state that contracts speak about
		ex.trusted["fmt/log printing has no effect on the verified state"] = true
		callee2 := callee
		if callee2.Signature.Results().Len() == 0 {
			k(st, nil)
			return true
		}
		var rs []*Val
		for i := 0; i < callee2.Signature.Results().Len(); i++ {
			rs = append(rs, ex.freshVal(callee2.Signature.Results().At(i).Type(), "ret_print"))
		}
		k(st, tupleOrSingle(rs))
		return true
	case "errors.New":
		e := ex.newRef(st, "err", "error")
		x := Sym(fmt.Sprintf("t!en%d", ex.nfresh), SRef)
		ex.nfresh++
		st.assume(Forall([]*Term{x}, Eq(ex.errIs(e, x), Eq(x, e)), []*Term{ex.errIs(e, x)}))
		k(st, scalar(e))
		return true
	case "errors.Is":
		ex.trusted["errors.Is is modelled by the uninterpreted relation errIs (reflexive; nil handled; Errorf %w)"] = true
		k(st, scalar(ex.errIs(ex.valTerm(args[0]), ex.valTerm(args[1]))))
		return true
	case "sync.(*Mutex).Lock", "sync.(*Mutex).Unlock", "sync.(*RWMutex).Lock", "sync.(*RWMutex).Unlock", "sync.(*RWMutex).RLock", "sync.(*RWMutex).RUnlock":
		ex.lockOp(st, fr, key, args[0], instr)
		k(st, nil)
		return true
	case "sync/atomic.AddInt32", "sync/atomic.AddInt64", "sync/atomic.AddUint32", "sync/atomic.AddUint64":
		ex.trusted["sync/atomic operations are atomic read-modify-writes"] = true
		elemT := callee.Signature.Params().At(0).Type().(*types.Pointer).Elem()
		loc := ex.ptrLoc(args[0], elemT)
		cur := ex.loadLoc(st, loc)
		w, signed, _ := intInfo(elemT)
		var nv *Term
		if cur.T.Sort.IsBV() {
			nv = bvBin("bvadd", cur.T, args[1].T)
		} else {
			nv = wrapInt(Add(cur.T, args[1].T), w, signed, false)
		}
		ex.storeLoc(st, loc, scalar(nv))
		k(st, scalar(nv))
		return true
	case "sync/atomic.LoadInt32", "sync/atomic.LoadInt64", "sync/atomic.LoadUint32", "sync/atomic.LoadUint64":
		ex.trusted["sync/atomic operations are atomic read-modify-writes"] = true
		elemT := callee.Signature.Params().At(0).Type().(*types.Pointer).Elem()
		loc := ex.ptrLoc(args[0], elemT)
		k(st, ex.loadLoc(st, loc))
		return true
	case "sync/atomic.CompareAndSwapInt32", "sync/atomic.CompareAndSwapInt64":
		ex.trusted["sync/atomic operations are atomic read-modify-writes"] = true
		elemT := callee.Signature.Params().At(0).Type().(*types.Pointer).Elem()
		loc := ex.ptrLoc(args[0], elemT)
		cur := ex.loadLoc(st, loc)
		ok := Eq(cur.T, args[1].T)
		ex.storeLoc(st, loc, scalar(Ite(ok, args[2].T, cur.T)))
		k(st, scalar(ok))
		return true
	case "sync/atomic.(*Value).Store", "sync/atomic.(*Value).Load", "sync/atomic.(*Value).CompareAndSwap":
		// atomic.Value is an opaque scalar; av_get projects the interface value it holds
		ex.trusted["sync/atomic.Value holds the last stored interface value (av_get); operations are atomic"] = true
		elemT := types.Unalias(callee.Signature.Recv().Type()).(*types.Pointer).Elem()
		loc := ex.ptrLoc(args[0], elemT)
		cur := ex.loadLoc(st, loc)
		get := ex.env.d.Func("av_get", SRef, cur.T.Sort)
		held := ex.env.d.Apply(get.Name, cur.T)
		switch {
		case strings.HasSuffix(key, "Load"):
			k(st, scalar(held))
		case strings.HasSuffix(key, "Store"):
			nv := ex.fresh("av", cur.T.Sort)
			st.assume(Eq(ex.env.d.Apply(get.Name, nv), args[1].T))
			ex.storeLoc(st, loc, scalar(nv))
			k(st, nil)
		default:
			ok := Eq(held, args[1].T)
			nv := ex.fresh("av", cur.T.Sort)
			st.assume(Eq(ex.env.d.Apply(get.Name, nv), Ite(ok, args[2].T, held)))
			ex.storeLoc(st, loc, scalar(nv))
			k(st, scalar(ok))
		}
		return true
	case "sync/atomic.StoreInt32", "sync/atomic.StoreInt64", "sync/atomic.StoreUint32", "sync/atomic.StoreUint64":
		elemT := callee.Signature.Params().At(0).Type().(*types.Pointer).Elem()
		loc := ex.ptrLoc(args[0], elemT)
		ex.storeLoc(st, loc, args[1])
		k(st, nil)
		return true
	}
	return false
}

func callArg(instr ssa.Instruction, i int) ssa.Value {
	if ci, ok := instr.(ssa.CallInstruction); ok {
		if i < len(ci.Common().Args) {
			return ci.Common().Args[i]
		}
	}
	return nil
}

// wrappedOperands returns the error operands matched by %w verbs.
// sprintfConcat models fmt.Sprintf for a constant format made of literal text and plain %s verbs whose operands are
// strings: the result is the concatenation.  Any other format: nil (the result is an arbitrary string).
func (ex *Exec) sprintfConcat(st *State, instr ssa.Instruction, args []*Val) *Term {
	c, ok := callArg(instr, 0).(*ssa.Const)
	if !ok || c.Value == nil || c.Value.Kind() != constant.String || len(args) < 2 || args[1].Sl == nil {
		return nil
	}
	format := constant.StringVal(c.Value)
	var lits []string
	cur := ""
	for i := 0; i < len(format); i++ {
		if format[i] != '%' {
			cur += string(format[i])
			continue
		}
		if i+1 >= len(format) || format[i+1] != 's' {
			return nil
		}
		i++
		lits = append(lits, cur)
		cur = ""
	}
	nverbs := len(lits)
	lits = append(lits, cur)
	sl := args[1].Sl
	// the number of operands must be the number of verbs (otherwise fmt adds %!s(MISSING) / %!(EXTRA ..))
	if sl.Len.String() != ex.intConst(int64(nverbs)).String() {
		return nil
	}
	anyT := types.NewInterfaceType(nil, nil)
	strT := types.Typ[types.String]
	unbox := ex.env.d.Func(symSafe("unbox "+ex.env.typeKey(strT)+" "), ex.strSort(), SRef)
	res := ex.strConst(lits[0])
	for j := 0; j < nverbs; j++ {
		loc := &Loc{Kind: LElem, Arr: sl.Arr, Idx: ex.iadd(sl.Off, ex.intConst(int64(j))), Base: anyT, Type: anyT}
		v := ex.loadLoc(st, loc)
		// %s of a string operand prints the string; of anything else: an arbitrary string
		other := ex.fresh("sprintf_arg", ex.strSort())
		st.assume(ex.strLenFacts(other))
		piece := Ite(And(Neq(v.T, IntLit(0)), Eq(ex.dtype(v.T), ex.typeTag(strT))), App(unbox.Name, ex.strSort(), v.T), other)
		res = ex.strCat(res, piece)
		if lits[j+1] != "" {
			res = ex.strCat(res, ex.strConst(lits[j+1]))
		}
	}
	ex.trusted["fmt.Sprintf with a constant format of literal text and %s verbs over string operands is concatenation"] = true
	return res
}

func (ex *Exec) wrappedOperands(st *State, format string, args []*Val) []*Term {
	if len(args) < 2 || args[1].Sl == nil {
		return nil
	}
	sl := args[1].Sl
	anyT := types.NewInterfaceType(nil, nil)
	var out []*Term
	argi := 0
	for i := 0; i < len(format); i++ {
		if format[i] != '%' {
			continue
		}
		i++
		if i >= len(format) {
			break
		}
		if format[i] == '%' {
			continue
		}
		// skip flags/width
		for i < len(format) && strings.ContainsRune("+-# 0123456789.", rune(format[i])) {
			i++
		}
		if i >= len(format) {
			break
		}
		if format[i] == 'w' {
			loc := &Loc{Kind: LElem, Arr: sl.Arr, Idx: ex.iadd(sl.Off, ex.intConst(int64(argi))), Base: anyT, Type: anyT}
			v := ex.loadLoc(st, loc)
			out = append(out, v.T)
		}
		argi++
	}
	return out
}

func (ex *Exec) lockOp(st *State, fr *Frame, key string, recv *Val, instr ssa.Instruction) {
	ex.trusted["sync.Mutex provides mutual exclusion"] = true
	name := "?"
	if recv.Loc != nil {
		name = recv.Loc.PathS
	}
	isLock := strings.HasSuffix(key, "Lock") && !strings.HasSuffix(key, "Unlock")
	if isLock {
		if st.held[name] {
			ex.check(st, "lock", ex.site("lock:reentrant", instr), TFalse, "Lock while already holding "+name, ex.pos(instr))
		}
		st.held[name] = true
		ex.monitorEnter(st, fr, name, recv, instr)
	} else {
		if !st.held[name] {
			ex.check(st, "lock", ex.site("lock:not-held", instr), TFalse, "Unlock without holding "+name, ex.pos(instr))
		}
		ex.monitorExit(st, fr, name, recv, instr)
		delete(st.held, name)
	}
}

// calleeLocks: does the body of the function under contract cs acquire a mutex field of its receiver?
// (syntactic scan of its SSA: a call of (*sync.Mutex).Lock / (*sync.RWMutex).Lock on a field address)
func (ex *Exec) calleeLocks(cs *FuncSpec) bool {
	fn := ex.P.Funcs[cs.Key]
	if fn == nil {
		return false
	}
	for _, b := range fn.Blocks {
		for _, in := range b.Instrs {
			ci, ok := in.(ssa.CallInstruction)
			if !ok {
				continue
			}
			if callee := ci.Common().StaticCallee(); callee != nil {
				switch funcKey(callee) {
				case "sync.(*Mutex).Lock", "sync.(*RWMutex).Lock", "sync.(*RWMutex).RLock":
					return true
				}
			}
		}
	}
	return false
}

// monitors returns the monitor declarations that apply to the property being checked.
func (ex *Exec) monitors() []*MonitorSpec {
	var out []*MonitorSpec
	for _, m := range ex.P.Specs.Monitors {
		if m.Only == "" || m.Only == ex.prop {
			out = append(out, m)
		}
	}
	return out
}

func (ex *Exec) monitorDecl(typeKey string) *MonitorSpec {
	if m := ex.P.Specs.Monitors[typeKey+"@"+ex.prop]; m != nil {
		return m
	}
	return ex.P.Specs.Monitors[typeKey+"@"]
}

// monitorOf returns the monitor declaration whose lock is the given field location.
func (ex *Exec) monitorOf(recv *Val) (*MonitorSpec, *Term, types.Type) {
	if recv.Loc == nil || recv.Loc.Kind != LHeap {
		return nil, nil, nil
	}
	n, ok := types.Unalias(ex.env.resolve(recv.Loc.Base)).(*types.Named)
	if !ok || n.Obj().Pkg() == nil {
		return nil, nil, nil
	}
	m := ex.monitorDecl(n.Obj().Pkg().Path() + "." + n.Obj().Name())
	if m == nil || "."+m.Lock != recv.Loc.PathS {
		return nil, nil, nil
	}
	return m, recv.Loc.Ref, recv.Loc.Base
}

// monitorEnter: Lock().  The first acquisition on a path starts from the
// function's entry state (which already is an arbitrary state satisfying the
// precondition).  Every later acquisition happens after other threads may
// have run: the guarded state is havocked and the monitor invariant assumed.
func (ex *Exec) monitorEnter(st *State, fr *Frame, name string, recv *Val, instr ssa.Instruction) {
	m, self, base := ex.monitorOf(recv)
	if m == nil {
		return
	}
	st.locks[name]++
	if st.locks[name] == 1 && st.locks["*cut*"] == 0 {
		// first acquisition: the state is the one the function was entered with; the monitor
		// invariant holds whenever the lock is free
		if m.Inv != nil {
			c := ex.frameCtx(st, fr)
			c.names[m.RecvName] = &SV{V: scalar(self), T: types.NewPointer(base)}
			st.assume(c.EvalBool(m.Inv.Expr))
		}
		ex.monitorAssuming(st, fr, m, self, base)
		st.lockSnaps = append(st.lockSnaps, st.snapshot())
		return
	}
	ex.monitorInterfere(st, fr, m, self, base)
	st.lockSnaps = append(st.lockSnaps, st.snapshot())
}

// monitorInterfere: other threads may have run since this path last held (or looked at) the monitor:
// the guarded state is arbitrary within the invariant (plus resource assumption and rely).
func (ex *Exec) monitorInterfere(st *State, fr *Frame, m *MonitorSpec, self *Term, base types.Type) {
	stru := ex.env.resolve(base).Underlying().(*types.Struct)
	for _, g := range m.Guards {
		if strings.HasPrefix(g, "pkg:") {
			// every field, element and map of the types of a package (key substring)
			sub := strings.TrimPrefix(g, "pkg:")
			hv := func(key string, cur *Term) {
				if (strings.HasPrefix(key, "F ") || strings.HasPrefix(key, "E ") || strings.HasPrefix(key, "Mdom ") || strings.HasPrefix(key, "Mval ")) && strings.Contains(key, sub) {
					st.heap[key] = ex.fresh("hv_mon", cur.Sort)
				}
			}
			for key, cur := range st.heap {
				hv(key, cur)
			}
			for key, cur := range ex.initHeap {
				if _, done := st.heap[key]; !done {
					hv(key, cur)
				}
			}
			continue
		}
		if strings.HasPrefix(g, "[]") {
			// element storage of every slice/array of that element type
			et := strings.TrimPrefix(g, "[]")
			for key, cur := range st.heap {
				if strings.HasPrefix(key, "E ") && strings.Contains(key, et+" ") {
					st.heap[key] = ex.fresh("hv_mon", cur.Sort)
				}
			}
			for key, cur := range ex.initHeap {
				if _, done := st.heap[key]; !done && strings.HasPrefix(key, "E ") && strings.Contains(key, et+" ") {
					st.heap[key] = ex.fresh("hv_mon", cur.Sort)
				}
			}
			continue
		}
		if strings.Contains(g, ".") {
			// every object of Type: field f
			parts := strings.SplitN(g, ".", 2)
			prefix := "F "
			for key, cur := range st.heap {
				if strings.HasPrefix(key, prefix) && strings.Contains(key, "."+parts[0]+" ."+parts[1]) {
					st.heap[key] = ex.fresh("hv_mon", cur.Sort)
				}
			}
			for key, cur := range ex.initHeap {
				if _, done := st.heap[key]; !done && strings.HasPrefix(key, prefix) && strings.Contains(key, "."+parts[0]+" ."+parts[1]) {
					st.heap[key] = ex.fresh("hv_mon", cur.Sort)
				}
			}
			continue
		}
		for i := 0; i < stru.NumFields(); i++ {
			f := stru.Field(i)
			if f.Name() != g {
				continue
			}
			ft := ex.env.resolve(f.Type())
			if mt, ok := ft.Underlying().(*types.Map); ok {
				mref := Select(ex.fieldArr(st, base, "."+g, SRef), self)
				ex.havocMap(st, mt, mref)
			} else {
				ex.havocTargets(st, []*modTarget{{kind: "field", base: ex.env.resolve(base), path: "." + g, typ: ft, ref: self}})
			}
		}
	}
	// objects allocated by other threads in the meantime
	{
		al := ex.allocArr(st)
		nal := ex.fresh("alloc_mon", al.Sort)
		xa := Sym(fmt.Sprintf("a!mon%d", ex.nfresh), SRef)
		st.assume(Forall([]*Term{xa}, Implies(Select(al, xa), Select(nal, xa)), []*Term{Select(nal, xa)}))
		st.assume(Not(Select(nal, IntLit(0))))
		st.heap["alloc"] = nal
	}
	// channels closed by other threads
	key := "chan closed"
	cl := ex.heapGet(st, key, ArraySort(SRef, SBool))
	ncl := ex.fresh("hv_closed", cl.Sort)
	x := Sym(fmt.Sprintf("c!mon%d", ex.nfresh), SRef)
	st.assume(Forall([]*Term{x}, Implies(Select(cl, x), Select(ncl, x)), []*Term{Select(ncl, x)}))
	st.heap[key] = ncl
	if m.Inv != nil {
		c := ex.frameCtx(st, fr)
		c.names[m.RecvName] = &SV{V: scalar(self), T: types.NewPointer(base)}
		st.assume(c.EvalBool(m.Inv.Expr))
	}
	ex.monitorAssuming(st, fr, m, self, base)
	if m.Rely != nil && len(st.unlockSnaps) > 0 {
		// what this thread owns (allocated itself) was not touched by the others since its last Unlock
		c := ex.frameCtx(st, fr)
		c.names[m.RecvName] = &SV{V: scalar(self), T: types.NewPointer(base)}
		st.assume(c.EvalBool(m.Rely.Expr))
		ex.trusted["rely of monitor "+m.TypeName+" (implied by every thread's proved guarantee; ownership = allocated by the invocation): "+m.Rely.Src] = true
	}
}

func (ex *Exec) monitorAssuming(st *State, fr *Frame, m *MonitorSpec, self *Term, base types.Type) {
	if m.Assuming == nil {
		return
	}
	c := ex.frameCtx(st, fr)
	c.names[m.RecvName] = &SV{V: scalar(self), T: types.NewPointer(base)}
	st.assume(c.EvalBool(m.Assuming.Expr))
	ex.trusted["resource assumption of monitor "+m.TypeName+": "+m.Assuming.Src] = true
}

// monitorExit: Unlock() - the monitor invariant must hold again.
func (ex *Exec) monitorExit(st *State, fr *Frame, name string, recv *Val, instr ssa.Instruction) {
	m, self, base := ex.monitorOf(recv)
	if m == nil {
		return
	}
	st.unlockSnaps = append(st.unlockSnaps, st.snapshot())
	if m.Guarantee != nil {
		c := ex.frameCtx(st, fr)
		c.names[m.RecvName] = &SV{V: scalar(self), T: types.NewPointer(base)}
		ex.check(st, "guarantee", ex.site("guarantee", instr), c.EvalBool(m.Guarantee.Expr), "guarantee of the critical section ending here: "+m.Guarantee.Src, ex.pos(instr))
	}
	if m.Inv == nil {
		return
	}
	c := ex.frameCtx(st, fr)
	c.names[m.RecvName] = &SV{V: scalar(self), T: types.NewPointer(base)}
	ex.check(st, "monitor-inv", ex.site("monitor-inv", instr), c.EvalBool(m.Inv.Expr), "monitor invariant at Unlock: "+m.Inv.Src, ex.pos(instr))
}

// tryDevirt resolves an interface call to the contract of a concrete method
// when the function's contract declares `devirt T`: the receiver must then
// provably have dynamic type T (obligation).
func (ex *Exec) tryDevirt(st *State, fr *Frame, call *ssa.CallCommon, recv *Val, args []*Val, instr ssa.Instruction, k func(st *State, res *Val)) bool {
	if fr.spec == nil || len(fr.spec.Devirt) == 0 {
		return false
	}
	ctx := ex.frameCtx(st, fr)
	for _, te := range fr.spec.Devirt {
		t := ctx.tryResolveType(te)
		if t == nil {
			continue
		}
		n, ok := types.Unalias(derefType(t)).(*types.Named)
		if !ok || n.Obj().Pkg() == nil {
			continue
		}
		star := ""
		if _, isPtr := t.Underlying().(*types.Pointer); isPtr {
			star = "*"
		}
		key := n.Obj().Pkg().Path() + ".(" + star + n.Obj().Name() + ")." + call.Method.Name()
		callee := ex.P.Funcs[key]
		cs := ex.P.Specs.For(key, ex.prop)
		if callee == nil || cs == nil {
			continue
		}
		subst := map[*types.TypeParam]types.Type{}
		for k2, v := range fr.subst {
			subst[k2] = v
		}
		if rtp := callee.Signature.RecvTypeParams(); rtp != nil && n.TypeArgs() != nil {
			for i := 0; i < rtp.Len() && i < n.TypeArgs().Len(); i++ {
				if rtp.At(i) != n.TypeArgs().At(i) {
					subst[rtp.At(i)] = n.TypeArgs().At(i)
				}
			}
		}
		r := ex.valTerm(recv)
		ex.check(st, "devirt", ex.site("devirt:"+call.Method.Name(), instr), ex.dynTypeIs(r, t), "receiver of "+call.Method.Name()+" has dynamic type "+t.String(), ex.pos(instr))
		st.assume(ex.dynTypeIs(r, t))
		all := append([]*Val{scalar(r)}, args...)
		ex.callees[shortKey(key)] = true
		if cs.Inline {
			ex.inlineCall(st, fr, callee, cs, subst, nil, all, instr, k)
			return true
		}
		saved := ex.env.subst
		ex.env.subst = subst
		res := ex.callContract(st, fr, cs, callee.Signature, callee, all, instr)
		ex.env.subst = saved
		k(st, res)
		return true
	}
	return false
}
