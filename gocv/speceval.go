package main

// Evaluation of specification expressions (Go expression syntax plus spec
// forms) to SMT terms in a given symbolic state.

import (
	"fmt"
	"os"
	"go/ast"
	"go/constant"
	"go/token"
	"go/types"
	"math/big"
	"strconv"
	"strings"
)

type SV struct {
	V     *Val
	T     types.Type // may be nil for untyped / spec-only values
	Const *big.Int   // untyped integer constant
}

type SpecCtx struct {
	ex     *Exec
	st     *State
	old    *State
	names  map[string]*SV
	pkg    *types.Package
	tparms map[string]types.Type // type parameter names in scope
	nbound *int
	noRebase bool
}

type specErr struct{ msg string }

func (e specErr) Error() string { return "spec error: " + e.msg }

func (c *SpecCtx) fail(format string, a ...any) {
	panic(specErr{fmt.Sprintf(format, a...)})
}

func (c *SpecCtx) with(names map[string]*SV) *SpecCtx {
	n := *c
	n.names = map[string]*SV{}
	for k, v := range c.names {
		n.names[k] = v
	}
	for k, v := range names {
		n.names[k] = v
	}
	return &n
}

func (c *SpecCtx) inState(st *State) *SpecCtx {
	n := *c
	n.st = st
	return &n
}

func boolSV(t *Term) *SV { return &SV{V: scalar(t), T: types.Typ[types.Bool]} }

func (c *SpecCtx) intType() types.Type { return types.Typ[types.Int] }

// EvalBool evaluates a clause to a boolean term.
func (c *SpecCtx) EvalBool(e ast.Expr) *Term {
	sv := c.eval(e)
	if sv.V == nil || sv.V.T == nil || sv.V.T.Sort != SBool {
		c.fail("expression is not boolean: %s", exprString(e))
	}
	return sv.V.T
}

func exprString(e ast.Expr) string { return types.ExprString(e) }

// term coerces an SV to a scalar term; untyped constants take the given sort hint.
func (c *SpecCtx) term(sv *SV, hint Sort) *Term {
	if sv.Const != nil {
		if hint == "" {
			hint = c.ex.env.IntS()
		}
		if hint.IsBV() {
			return BVLit(sv.Const, hint.BVWidth())
		}
		if hint == SInt {
			return IntLitBig(sv.Const)
		}
		c.fail("constant %s used where sort %s expected", sv.Const, hint)
	}
	if sv.V == nil {
		c.fail("no value")
	}
	return c.ex.valTerm(sv.V)
}

func (c *SpecCtx) isSigned(a, b *SV) bool {
	for _, x := range []*SV{a, b} {
		if x != nil && x.T != nil {
			if _, s, ok := intInfo(c.ex.env.resolve(x.T)); ok {
				return s
			}
		}
	}
	return true
}

func (c *SpecCtx) eval(e ast.Expr) *SV {
	switch x := e.(type) {
	case *ast.ParenExpr:
		return c.eval(x.X)
	case *ast.BasicLit:
		switch x.Kind {
		case token.INT:
			v, ok := new(big.Int).SetString(strings.ReplaceAll(x.Value, "_", ""), 0)
			if !ok {
				c.fail("bad int literal %s", x.Value)
			}
			return &SV{Const: v}
		case token.STRING:
			s, err := strconv.Unquote(x.Value)
			if err != nil {
				c.fail("bad string literal")
			}
			return &SV{V: scalar(c.ex.strConst(s)), T: types.Typ[types.String]}
		case token.CHAR:
			s, _ := strconv.Unquote(x.Value)
			return &SV{Const: big.NewInt(int64([]rune(s)[0]))}
		}
		c.fail("unsupported literal %s", x.Value)
	case *ast.Ident:
		return c.evalIdent(x)
	case *ast.UnaryExpr:
		a := c.eval(x.X)
		switch x.Op {
		case token.NOT:
			return boolSV(Not(c.term(a, SBool)))
		case token.SUB:
			if a.Const != nil {
				return &SV{Const: new(big.Int).Neg(a.Const)}
			}
			t := c.term(a, "")
			if t.Sort.IsBV() {
				return &SV{V: scalar(App("bvneg", t.Sort, t)), T: a.T}
			}
			return &SV{V: scalar(Neg(t)), T: a.T}
		case token.XOR:
			t := c.term(a, "")
			if t.Sort.IsBV() {
				return &SV{V: scalar(App("bvnot", t.Sort, t)), T: a.T}
			}
		}
		c.fail("unsupported unary %s", x.Op)
	case *ast.BinaryExpr:
		return c.evalBinary(x)
	case *ast.SelectorExpr:
		return c.evalSelector(x)
	case *ast.IndexExpr:
		return c.evalIndex(x)
	case *ast.SliceExpr:
		return c.evalSliceExpr(x)
	case *ast.StarExpr:
		p := c.eval(x.X)
		pt, ok := c.ex.env.resolve(p.T).Underlying().(*types.Pointer)
		if !ok {
			c.fail("deref of non-pointer %s", exprString(x.X))
		}
		loc := c.ex.ptrLoc(p.V, pt.Elem())
		return &SV{V: c.ex.loadLoc(c.st, loc), T: pt.Elem()}
	case *ast.CallExpr:
		return c.evalCall(x)
	}
	c.fail("unsupported spec expression %s (%T)", exprString(e), e)
	return nil
}

func (c *SpecCtx) evalIdent(x *ast.Ident) *SV {
	switch x.Name {
	case "true":
		return boolSV(TTrue)
	case "false":
		return boolSV(TFalse)
	case "nil":
		return &SV{V: scalar(IntLit(0)), T: types.Typ[types.UntypedNil]}
	}
	if sv, ok := c.names[x.Name]; ok {
		return sv
	}
	// ghost globals
	if gg := c.findGhostGlobal(x.Name); gg != nil {
		return c.loadGhostGlobal(gg)
	}
	// package-level constants and variables
	if c.pkg != nil {
		if obj := c.pkg.Scope().Lookup(x.Name); obj != nil {
			return c.objValue(obj)
		}
	}
	if obj := types.Universe.Lookup(x.Name); obj != nil {
		if cn, ok := obj.(*types.Const); ok {
			return c.constSV(cn)
		}
	}
	c.fail("unknown identifier %s", x.Name)
	return nil
}

func (c *SpecCtx) constSV(cn *types.Const) *SV {
	switch cn.Val().Kind() {
	case constant.Int:
		v, _ := new(big.Int).SetString(cn.Val().ExactString(), 10)
		if b, ok := cn.Type().Underlying().(*types.Basic); ok && b.Info()&types.IsUntyped == 0 {
			s := c.ex.env.basicSort(b)
			if s.IsBV() {
				return &SV{V: scalar(BVLit(v, s.BVWidth())), T: cn.Type()}
			}
			return &SV{V: scalar(IntLitBig(v)), T: cn.Type()}
		}
		return &SV{Const: v}
	case constant.Bool:
		if constant.BoolVal(cn.Val()) {
			return boolSV(TTrue)
		}
		return boolSV(TFalse)
	case constant.String:
		return &SV{V: scalar(c.ex.strConst(constant.StringVal(cn.Val()))), T: types.Typ[types.String]}
	}
	c.fail("unsupported constant %s", cn.Name())
	return nil
}

func (c *SpecCtx) objValue(obj types.Object) *SV {
	switch o := obj.(type) {
	case *types.Const:
		return c.constSV(o)
	case *types.Var:
		// global variable
		sp := c.ex.P.SPkgs[o.Pkg().Path()]
		if sp == nil {
			c.fail("package %s not loaded", o.Pkg().Path())
		}
		g, ok := sp.Members[o.Name()].(interface {
			Name() string
		})
		_ = g
		if !ok {
			c.fail("global %s not found", o.Name())
		}
		gl := c.ex.globalOf(o)
		if gl == nil {
			c.fail("global %s not found", o.Name())
		}
		loc := &Loc{Kind: LGlobal, Global: gl, Type: o.Type()}
		return &SV{V: c.ex.readGlobal(c.st, loc), T: o.Type()}
	}
	c.fail("unsupported object %s", obj.Name())
	return nil
}

func (c *SpecCtx) evalBinary(x *ast.BinaryExpr) *SV {
	switch x.Op {
	case token.LAND:
		return boolSV(And(c.EvalBool(x.X), c.EvalBool(x.Y)))
	case token.LOR:
		return boolSV(Or(c.EvalBool(x.X), c.EvalBool(x.Y)))
	}
	a, b := c.eval(x.X), c.eval(x.Y)
	if a.Const != nil && b.Const != nil {
		r := new(big.Int)
		switch x.Op {
		case token.ADD:
			return &SV{Const: r.Add(a.Const, b.Const)}
		case token.SUB:
			return &SV{Const: r.Sub(a.Const, b.Const)}
		case token.MUL:
			return &SV{Const: r.Mul(a.Const, b.Const)}
		case token.QUO:
			return &SV{Const: r.Quo(a.Const, b.Const)}
		case token.REM:
			return &SV{Const: r.Rem(a.Const, b.Const)}
		case token.SHL:
			return &SV{Const: r.Lsh(a.Const, uint(b.Const.Int64()))}
		case token.SHR:
			return &SV{Const: r.Rsh(a.Const, uint(b.Const.Int64()))}
		case token.AND:
			return &SV{Const: r.And(a.Const, b.Const)}
		case token.OR:
			return &SV{Const: r.Or(a.Const, b.Const)}
		}
		cmp := a.Const.Cmp(b.Const)
		var res bool
		switch x.Op {
		case token.EQL:
			res = cmp == 0
		case token.NEQ:
			res = cmp != 0
		case token.LSS:
			res = cmp < 0
		case token.LEQ:
			res = cmp <= 0
		case token.GTR:
			res = cmp > 0
		case token.GEQ:
			res = cmp >= 0
		default:
			c.fail("unsupported constant op %s", x.Op)
		}
		if res {
			return boolSV(TTrue)
		}
		return boolSV(TFalse)
	}
	if x.Op == token.EQL || x.Op == token.NEQ {
		if os.Getenv("GOCV_DEBUG") != "" {
			fmt.Fprintf(os.Stderr, "EQ %s : %v (%v) vs %v (%v)\n", exprString(x), a.V, a.T, b.V, b.T)
		}
		eq := c.svEq(a, b)
		if x.Op == token.NEQ {
			eq = Not(eq)
		}
		return boolSV(eq)
	}
	// scalar arithmetic / comparison
	var ta, tb *Term
	if a.Const != nil {
		tb = c.term(b, "")
		ta = c.term(a, tb.Sort)
	} else {
		ta = c.term(a, "")
		tb = c.term(b, ta.Sort)
	}
	rt := a.T
	if a.Const != nil || rt == nil {
		rt = b.T
	}
	isShift := x.Op == token.SHL || x.Op == token.SHR
	if ta.Sort != tb.Sort && !isShift {
		// byte vs int mixing: lift the BV side to Int (or resize BVs)
		switch {
		case ta.Sort.IsBV() && tb.Sort == SInt:
			ta = bvToInt(ta, false)
			rt = b.T
		case tb.Sort.IsBV() && ta.Sort == SInt:
			tb = bvToInt(tb, false)
		case ta.Sort.IsBV() && tb.Sort.IsBV():
			w := ta.Sort.BVWidth()
			if tb.Sort.BVWidth() > w {
				w = tb.Sort.BVWidth()
				rt = b.T
			}
			ta, tb = bvResize(ta, w, false), bvResize(tb, w, false)
		default:
			c.fail("sort mismatch in %s: %s vs %s", exprString(x), ta.Sort, tb.Sort)
		}
	}
	signed := c.isSigned(a, b)
	if ta.Sort.IsBV() {
		w := ta.Sort.BVWidth()
		switch x.Op {
		case token.ADD:
			return &SV{V: scalar(bvBin("bvadd", ta, tb)), T: rt}
		case token.SUB:
			return &SV{V: scalar(bvBin("bvsub", ta, tb)), T: rt}
		case token.MUL:
			return &SV{V: scalar(bvBin("bvmul", ta, tb)), T: rt}
		case token.AND:
			return &SV{V: scalar(bvBin("bvand", ta, tb)), T: rt}
		case token.OR:
			return &SV{V: scalar(bvBin("bvor", ta, tb)), T: rt}
		case token.XOR:
			return &SV{V: scalar(bvBin("bvxor", ta, tb)), T: rt}
		case token.QUO:
			if signed {
				return &SV{V: scalar(bvBin("bvsdiv", ta, tb)), T: rt}
			}
			return &SV{V: scalar(bvBin("bvudiv", ta, tb)), T: rt}
		case token.REM:
			if signed {
				return &SV{V: scalar(bvBin("bvsrem", ta, tb)), T: rt}
			}
			return &SV{V: scalar(bvBin("bvurem", ta, tb)), T: rt}
		case token.SHL, token.SHR:
			op := "bvshl"
			if x.Op == token.SHR {
				op = "bvlshr"
				if _, s, ok := intInfo(c.ex.env.resolve(a.T)); ok && s {
					op = "bvashr"
				}
			}
			if tb.Sort == SInt {
				if !tb.IsLit() {
					// shift by a symbolic Int amount: case split over 0..w-1 (0 beyond)
					var res *Term = BVLit64(0, w)
					if op == "bvashr" {
						res = bvBin(op, ta, BVLit64(uint64(w-1), w))
					}
					for k := w - 1; k >= 0; k-- {
						res = Ite(Eq(tb, IntLit(int64(k))), bvBin(op, ta, BVLit64(uint64(k), w)), res)
					}
					return &SV{V: scalar(res), T: a.T}
				}
				tb = BVLit(tb.IntVal, w)
			} else if tb.Sort.BVWidth() != w {
				tb = bvResize(tb, w, false)
			}
			return &SV{V: scalar(bvBin(op, ta, tb)), T: a.T}
		case token.LSS, token.LEQ, token.GTR, token.GEQ:
			o := map[bool]map[token.Token]string{
				true:  {token.LSS: "bvslt", token.LEQ: "bvsle", token.GTR: "bvsgt", token.GEQ: "bvsge"},
				false: {token.LSS: "bvult", token.LEQ: "bvule", token.GTR: "bvugt", token.GEQ: "bvuge"}}
			return boolSV(App(o[signed][x.Op], SBool, ta, tb))
		}
		c.fail("unsupported bv op %s", x.Op)
	}
	if ta.Sort != SInt {
		c.fail("arithmetic on sort %s in %s", ta.Sort, exprString(x))
	}
	switch x.Op {
	case token.ADD:
		return &SV{V: scalar(Add(ta, tb)), T: rt}
	case token.SUB:
		return &SV{V: scalar(Sub(ta, tb)), T: rt}
	case token.MUL:
		return &SV{V: scalar(c.ex.nlMul(ta, tb)), T: rt}
	case token.QUO:
		return &SV{V: scalar(c.ex.nlDiv(ta, tb)), T: rt}
	case token.REM:
		return &SV{V: scalar(c.ex.nlMod(ta, tb)), T: rt}
	case token.LSS:
		return boolSV(Lt(ta, tb))
	case token.LEQ:
		return boolSV(Le(ta, tb))
	case token.GTR:
		return boolSV(Gt(ta, tb))
	case token.GEQ:
		return boolSV(Ge(ta, tb))
	case token.SHL:
		if tb.IsLit() {
			return &SV{V: scalar(Mul(ta, IntLitBig(pow2(int(tb.IntVal.Int64()))))), T: rt}
		}
	case token.SHR:
		if tb.IsLit() {
			return &SV{V: scalar(App("div", SInt, ta, IntLitBig(pow2(int(tb.IntVal.Int64()))))), T: rt}
		}
	case token.AND:
		if tb.IsLit() {
			p := new(big.Int).Add(tb.IntVal, big.NewInt(1))
			if new(big.Int).And(p, tb.IntVal).Sign() == 0 {
				return &SV{V: scalar(App("mod", SInt, ta, IntLitBig(p))), T: rt}
			}
		}
	}
	c.fail("unsupported int op %s in %s", x.Op, exprString(x))
	return nil
}

func (c *SpecCtx) svEq(a, b *SV) *Term {
	if a.Const != nil || b.Const != nil {
		var ta, tb *Term
		if a.Const != nil {
			tb = c.term(b, "")
			ta = c.term(a, tb.Sort)
		} else {
			ta = c.term(a, "")
			tb = c.term(b, ta.Sort)
		}
		return Eq(ta, tb)
	}
	t := a.T
	if t == nil || isUntypedNil(t) {
		t = b.T
	}
	if t == nil {
		return Eq(c.term(a, ""), c.term(b, ""))
	}
	if _, ok := isSeqType(c.ex.env.resolve(t)); ok {
		return Eq(a.V.T, b.V.T)
	}
	// a pointer into an object (field, element, local) is never nil
	if a.V != nil && a.V.Loc != nil && a.V.T == nil && isUntypedNil(b.T) {
		return TFalse
	}
	if b.V != nil && b.V.Loc != nil && b.V.T == nil && isUntypedNil(a.T) {
		return TFalse
	}
	// nil compared with slice
	if _, ok := c.ex.env.resolve(t).Underlying().(*types.Slice); ok {
		if isUntypedNil(a.T) {
			return Eq(b.V.Sl.Arr, IntLit(0))
		}
		if isUntypedNil(b.T) {
			return Eq(a.V.Sl.Arr, IntLit(0))
		}
		// slice equality in specs is identity of the slice headers
		sa, sb := a.V.Sl, b.V.Sl
		if sa == nil || sb == nil {
			c.fail("slice comparison of non-slice values: %v (%v) vs %v (%v)", a.V, a.T, b.V, b.T)
		}
		return And(Eq(sa.Arr, sb.Arr), Eq(sa.Off, sb.Off), Eq(sa.Len, sb.Len), Eq(sa.Cap, sb.Cap))
	}
	if a.V.T != nil && b.V.T != nil {
		ta, tb := a.V.T, b.V.T
		if ta.Sort != tb.Sort {
			if ta.Sort.IsBV() && tb.Sort == SInt {
				ta = bvToInt(ta, false)
			} else if tb.Sort.IsBV() && ta.Sort == SInt {
				tb = bvToInt(tb, false)
			} else if ta.Sort.IsBV() && tb.Sort.IsBV() {
				w := max(ta.Sort.BVWidth(), tb.Sort.BVWidth())
				ta, tb = bvResize(ta, w, false), bvResize(tb, w, false)
			}
		}
		return Eq(ta, tb)
	}
	return c.ex.valEq(t, a.V, b.V)
}

func isUntypedNil(t types.Type) bool {
	b, ok := t.(*types.Basic)
	return ok && b.Kind() == types.UntypedNil
}

// selectField resolves x.name on a value.
func (c *SpecCtx) selectField(x *SV, name string) *SV {
	if x.T == nil {
		c.fail("field %s of untyped value", name)
	}
	t := c.ex.env.resolve(x.T)
	// ghost fields
	if gf := c.ex.ghostField(t, name); gf != nil {
		return c.loadGhostField(x, t, gf)
	}
	obj, index, _ := types.LookupFieldOrMethod(t, true, c.pkgOf(t), name)
	fv, ok := obj.(*types.Var)
	if !ok || !fv.IsField() {
		c.fail("no field %s in %s", name, t)
	}
	cur := x
	for _, idx := range index {
		ct := c.ex.env.resolve(cur.T)
		if pt, ok := ct.Underlying().(*types.Pointer); ok {
			stT := c.ex.env.resolve(pt.Elem())
			stru, ok := stT.Underlying().(*types.Struct)
			if !ok {
				c.fail("pointer to non-struct")
			}
			f := stru.Field(idx)
			var loc *Loc
			if cur.V.Loc != nil {
				l := *cur.V.Loc
				l.PathS += "." + f.Name()
				l.PathI = append(append([]int(nil), l.PathI...), idx)
				l.Type = f.Type()
				loc = &l
			} else {
				loc = &Loc{Kind: LHeap, Ref: c.ex.valTerm(cur.V), Base: stT, PathS: "." + f.Name(), Type: f.Type()}
			}
			if _, isArr := c.ex.env.resolve(f.Type()).Underlying().(*types.Array); isArr {
				cur = &SV{V: &Val{Loc: loc}, T: types.NewPointer(f.Type())}
				// arrays are denoted by a pointer to them
				cur.T = f.Type()
				continue
			}
			cur = &SV{V: c.ex.loadLoc(c.st, loc), T: f.Type()}
			continue
		}
		stru, ok := ct.Underlying().(*types.Struct)
		if !ok {
			c.fail("field access on non-struct %s", ct)
		}
		if cur.V == nil || idx >= len(cur.V.Fs) {
			c.fail("bad struct value for %s", ct)
		}
		cur = &SV{V: cur.V.Fs[idx], T: stru.Field(idx).Type()}
	}
	return cur
}

func (c *SpecCtx) pkgOf(t types.Type) *types.Package {
	if p, ok := t.(*types.Pointer); ok {
		t = p.Elem()
	}
	if n, ok := types.Unalias(t).(*types.Named); ok && n.Obj().Pkg() != nil {
		return n.Obj().Pkg()
	}
	return c.pkg
}

func (c *SpecCtx) evalSelector(x *ast.SelectorExpr) *SV {
	// package-qualified name?
	if id, ok := x.X.(*ast.Ident); ok {
		if _, shadow := c.names[id.Name]; !shadow {
			if p := c.importedPkg(id.Name); p != nil {
				obj := p.Scope().Lookup(x.Sel.Name)
				if obj == nil {
					c.fail("%s.%s not found", id.Name, x.Sel.Name)
				}
				return c.objValue(obj)
			}
		}
	}
	base := c.eval(x.X)
	return c.selectField(base, x.Sel.Name)
}

func (c *SpecCtx) importedPkg(name string) *types.Package {
	if c.pkg != nil {
		for _, imp := range c.pkg.Imports() {
			if imp.Name() == name {
				return imp
			}
		}
	}
	// any loaded package with that name (spec files may refer to packages the code does not import)
	for path, sp := range c.ex.P.SPkgs {
		_ = path
		if sp.Pkg.Name() == name && (strings.HasPrefix(sp.Pkg.Path(), modulePath) || !strings.Contains(sp.Pkg.Path(), "/internal/")) {
			if strings.HasPrefix(sp.Pkg.Path(), modulePath) || sp.Pkg.Path() == name || strings.HasSuffix(sp.Pkg.Path(), "/"+name) {
				return sp.Pkg
			}
		}
	}
	return nil
}

func (c *SpecCtx) sliceElem(sl *SliceV, elemT types.Type, idx *Term) *Val {
	abs := c.ex.iadd(sl.Off, idx)
	if sl.Inner != nil {
		return c.ex.buildVal(elemT, "", func(l Leaf) *Term { return Select(sl.Inner[l.Path], abs) })
	}
	loc := &Loc{Kind: LElem, Arr: sl.Arr, Idx: abs, Base: c.ex.env.resolve(elemT), Type: elemT}
	return c.ex.loadLoc(c.st, loc)
}

func (c *SpecCtx) evalIndex(x *ast.IndexExpr) *SV {
	base := c.eval(x.X)
	if base.T == nil {
		c.fail("index of untyped value")
	}
	bt := c.ex.env.resolve(base.T)
	if el, ok := isSetType(bt); ok {
		i := c.term(c.eval(x.Index), c.ex.env.scalarSort(el))
		return boolSV(Select(base.V.T, i))
	}
	if el, ok := isSeqType(bt); ok {
		i := c.term(c.eval(x.Index), c.ex.env.IntS())
		return &SV{V: scalar(Select(base.V.T, i)), T: el}
	}
	if b, ok := bt.Underlying().(*types.Basic); ok && b.Info()&types.IsString != 0 {
		i := c.term(c.eval(x.Index), c.ex.env.IntS())
		f := c.ex.env.d.Func("str_at", SBV8, c.ex.strSort(), c.ex.env.IntS())
		return &SV{V: scalar(c.ex.env.d.Apply(f.Name, base.V.T, i)), T: types.Typ[types.Uint8]}
	}
	switch tt := bt.Underlying().(type) {
	case *types.Slice:
		i := c.term(c.eval(x.Index), c.ex.env.IntS())
		return &SV{V: c.sliceElem(base.V.Sl, tt.Elem(), i), T: tt.Elem()}
	case *types.Array:
		i := c.term(c.eval(x.Index), c.ex.env.IntS())
		sl := c.ex.arraySlice(base.V, tt)
		return &SV{V: c.sliceElem(sl, tt.Elem(), i), T: tt.Elem()}
	case *types.Map:
		k := c.term(c.eval(x.Index), c.ex.env.scalarSort(tt.Key()))
		return &SV{V: c.ex.mapLookup(c.st, c.ex.valTerm(base.V), tt, k), T: tt.Elem()}
	case *types.Pointer:
		if at, ok := c.ex.env.resolve(tt.Elem()).Underlying().(*types.Array); ok {
			i := c.term(c.eval(x.Index), c.ex.env.IntS())
			sl := c.ex.arraySlice(base.V, at)
			return &SV{V: c.sliceElem(sl, at.Elem(), i), T: at.Elem()}
		}
	}
	c.fail("cannot index %s", bt)
	return nil
}

func (c *SpecCtx) evalSliceExpr(x *ast.SliceExpr) *SV {
	base := c.eval(x.X)
	bt := c.ex.env.resolve(base.T)
	var sl *SliceV
	var rt types.Type = base.T
	switch tt := bt.Underlying().(type) {
	case *types.Slice:
		sl = base.V.Sl
	case *types.Array:
		sl = c.ex.arraySlice(base.V, tt)
		rt = types.NewSlice(tt.Elem())
	case *types.Basic:
		if tt.Info()&types.IsString == 0 {
			c.fail("cannot slice %s", bt)
		}
		// s[lo:hi] of a string: the same uninterpreted substr term the executor builds for the Go expression
		ex := c.ex
		str := c.term(base, ex.strSort())
		lo := ex.intConst(0)
		hi := ex.strLen(str)
		if x.Low != nil {
			lo = c.term(c.eval(x.Low), ex.env.IntS())
		}
		if x.High != nil {
			hi = c.term(c.eval(x.High), ex.env.IntS())
		}
		sub := ex.env.d.Func("substr", ex.strSort(), ex.strSort(), ex.env.IntS(), ex.env.IntS())
		return &SV{V: scalar(ex.env.d.Apply(sub.Name, str, lo, hi)), T: base.T}
	default:
		c.fail("cannot slice %s", bt)
	}
	is := c.ex.env.IntS()
	lo := c.ex.intConst(0)
	hi := sl.Len
	if x.Low != nil {
		lo = c.term(c.eval(x.Low), is)
	}
	if x.High != nil {
		hi = c.term(c.eval(x.High), is)
	}
	return &SV{V: &Val{Sl: &SliceV{Arr: sl.Arr, Off: c.ex.iadd(sl.Off, lo), Len: c.ex.isub(hi, lo), Cap: c.ex.isub(sl.Cap, lo)}}, T: rt}
}

func (c *SpecCtx) newBound(name string, s Sort) *Term {
	*c.nbound++
	return Sym(fmt.Sprintf("%s!b%d", sanitizeName(name), *c.nbound), s)
}

// resolveType resolves a type expression appearing in a spec.
func (c *SpecCtx) resolveType(e ast.Expr) types.Type {
	switch x := e.(type) {
	case *ast.Ident:
		if t, ok := c.tparms[x.Name]; ok {
			return t
		}
		if x.Name == "ref" {
			return types.Typ[types.UnsafePointer]
		}
		if c.pkg != nil {
			if obj := c.pkg.Scope().Lookup(x.Name); obj != nil {
				if tn, ok := obj.(*types.TypeName); ok {
					return tn.Type()
				}
			}
		}
		if obj := types.Universe.Lookup(x.Name); obj != nil {
			if tn, ok := obj.(*types.TypeName); ok {
				return tn.Type()
			}
		}
	case *ast.StarExpr:
		return types.NewPointer(c.resolveType(x.X))
	case *ast.ArrayType:
		if x.Len == nil {
			return types.NewSlice(c.resolveType(x.Elt))
		}
	case *ast.SelectorExpr:
		if id, ok := x.X.(*ast.Ident); ok {
			if p := c.importedPkg(id.Name); p != nil {
				if obj := p.Scope().Lookup(x.Sel.Name); obj != nil {
					if tn, ok := obj.(*types.TypeName); ok {
						return tn.Type()
					}
				}
			}
		}
	case *ast.ParenExpr:
		return c.resolveType(x.X)
	case *ast.IndexListExpr:
		g := c.resolveType(x.X)
		if n, ok := g.(*types.Named); ok && n.TypeParams() != nil {
			var targs []types.Type
			for _, ie := range x.Indices {
				targs = append(targs, c.resolveType(ie))
			}
			if inst, err := types.Instantiate(nil, n, targs, false); err == nil {
				return inst
			}
		}
	case *ast.IndexExpr:
		if id, ok := x.X.(*ast.Ident); ok && id.Name != "seq" && id.Name != "set" {
			g := c.resolveType(x.X)
			if n, ok := g.(*types.Named); ok && n.TypeParams() != nil {
				if inst, err := types.Instantiate(nil, n, []types.Type{c.resolveType(x.Index)}, false); err == nil {
					return inst
				}
			}
		}
		if id, ok := x.X.(*ast.Ident); ok && id.Name == "seq" {
			el := c.resolveType(x.Index)
			return seqType(el, c.ex.env.typeKey(el))
		}
		if id, ok := x.X.(*ast.Ident); ok && id.Name == "set" {
			el := c.resolveType(x.Index)
			return setType(el, c.ex.env.typeKey(el))
		}
	}
	c.fail("cannot resolve type %s", exprString(e))
	return nil
}

func (c *SpecCtx) tryResolveType(e ast.Expr) (t types.Type) {
	defer func() {
		if r := recover(); r != nil {
			if _, ok := r.(specErr); ok {
				t = nil
				return
			}
			panic(r)
		}
	}()
	return c.resolveType(e)
}

func (c *SpecCtx) evalCall(x *ast.CallExpr) *SV {
	ex := c.ex
	// method-style spec function: r.n()
	if sel, ok := x.Fun.(*ast.SelectorExpr); ok {
		isPkg := false
		if id, ok := sel.X.(*ast.Ident); ok {
			if _, shadow := c.names[id.Name]; !shadow && c.importedPkg(id.Name) != nil {
				isPkg = true
				// pkg.specfunc(...)
				p := c.importedPkg(id.Name)
				if sf := ex.P.Specs.SpecFuncs[p.Path()+"."+sel.Sel.Name]; sf != nil {
					return c.applySpecFunc(sf, nil, x.Args)
				}
				// conversion to a named type pkg.T(x)
				if obj := p.Scope().Lookup(sel.Sel.Name); obj != nil {
					if tn, ok := obj.(*types.TypeName); ok {
						return c.convert(tn.Type(), c.eval(x.Args[0]))
					}
				}
				c.fail("unknown %s.%s", id.Name, sel.Sel.Name)
			}
		}
		if !isPkg {
			recv := c.eval(sel.X)
			sf := c.findMethodSpec(recv, sel.Sel.Name)
			if sf == nil {
				c.fail("no spec function %s for %s", sel.Sel.Name, exprString(sel.X))
			}
			return c.applySpecFunc(sf, recv, x.Args)
		}
	}
	id, ok := x.Fun.(*ast.Ident)
	if !ok {
		// conversion with composite type e.g. []byte(x) unsupported
		c.fail("unsupported call %s", exprString(x))
	}
	is := ex.env.IntS()
	switch id.Name {
	case "old":
		if c.old == nil {
			return c.eval(x.Args[0])
		}
		return c.inState(c.old).eval(x.Args[0])
	case "atEntry":
		// atEntry(e): e in the entry state of the function under verification - also inside the precondition of a
		// callee, where it lets the callee demand something relative to ITS CALLER's entry ("this value was made
		// during the call that passes it")
		if ex.entry == nil {
			return c.eval(x.Args[0])
		}
		return c.inState(ex.entry).eval(x.Args[0])
	case "sinceLock":
		// sinceLock(e[, k]): e in the current state with old(..) bound to the state right after
		// the k-th last monitor Lock (two-state predicates written with old() are reused per critical section)
		k := 0
		if len(x.Args) > 1 {
			kv := c.eval(x.Args[1])
			if kv.Const == nil {
				c.fail("sinceLock: index must be a constant")
			}
			k = int(kv.Const.Int64())
		}
		snaps := c.st.lockSnaps
		if len(snaps)-1-k < 0 {
			return c.eval(x.Args[0])
		}
		n := *c
		n.old = snaps[len(snaps)-1-k]
		return n.eval(x.Args[0])
	case "atLock", "atUnlock":
		// atLock(e[, k]) / atUnlock(e[, k]): e in the state right after the k-th
		// last monitor Lock / right before the k-th last monitor Unlock on this
		// path (k = 0: the last one).  Without such an operation: the current state.
		snaps := c.st.lockSnaps
		if id.Name == "atUnlock" {
			snaps = c.st.unlockSnaps
		}
		k := 0
		if len(x.Args) > 1 {
			kv := c.eval(x.Args[1])
			if kv.Const == nil {
				c.fail("%s: index must be a constant", id.Name)
			}
			k = int(kv.Const.Int64())
		}
		if len(snaps)-1-k < 0 {
			return c.eval(x.Args[0])
		}
		return c.inState(snaps[len(snaps)-1-k]).eval(x.Args[0])
	case "implies":
		return boolSV(Implies(c.EvalBool(x.Args[0]), c.EvalBool(x.Args[1])))
	case "ite":
		cond := c.EvalBool(x.Args[0])
		a, b := c.eval(x.Args[1]), c.eval(x.Args[2])
		var ta, tb *Term
		if a.Const != nil && b.Const != nil {
			ta, tb = c.term(a, is), c.term(b, is)
		} else if a.Const != nil {
			tb = c.term(b, "")
			ta = c.term(a, tb.Sort)
		} else {
			ta = c.term(a, "")
			tb = c.term(b, ta.Sort)
		}
		rt := a.T
		if rt == nil {
			rt = b.T
		}
		return &SV{V: scalar(Ite(cond, ta, tb)), T: rt}
	case "min", "max":
		a, b := c.eval(x.Args[0]), c.eval(x.Args[1])
		var ta, tb *Term
		if a.Const != nil {
			tb = c.term(b, "")
			ta = c.term(a, tb.Sort)
		} else {
			ta = c.term(a, "")
			tb = c.term(b, ta.Sort)
		}
		rt := a.T
		if rt == nil {
			rt = b.T
		}
		var lt *Term
		if ta.Sort.IsBV() {
			if c.isSigned(a, b) {
				lt = App("bvslt", SBool, ta, tb)
			} else {
				lt = App("bvult", SBool, ta, tb)
			}
		} else {
			lt = Lt(ta, tb)
		}
		if id.Name == "min" {
			return &SV{V: scalar(Ite(lt, ta, tb)), T: rt}
		}
		return &SV{V: scalar(Ite(lt, tb, ta)), T: rt}
	case "len", "cap":
		a := c.eval(x.Args[0])
		at := ex.env.resolve(a.T)
		switch tt := at.Underlying().(type) {
		case *types.Slice:
			if id.Name == "len" {
				return &SV{V: scalar(a.V.Sl.Len), T: c.intType()}
			}
			return &SV{V: scalar(a.V.Sl.Cap), T: c.intType()}
		case *types.Basic:
			return &SV{V: scalar(ex.strLen(a.V.T)), T: c.intType()}
		case *types.Map:
			return &SV{V: scalar(ex.mapSize(c.st, ex.valTerm(a.V), tt)), T: c.intType()}
		case *types.Array:
			return &SV{V: scalar(ex.intConst(tt.Len())), T: c.intType()}
		}
		c.fail("len of %s", at)
	case "forall", "exists":
		return c.evalQuant(id.Name, x)
	case "zero":
		t := c.resolveType(x.Args[0])
		if os.Getenv("GOCV_DEBUG") != "" {
			fmt.Fprintf(os.Stderr, "ZERO %v -> %v (%T) leaves=%v\n", t, ex.env.resolve(t), ex.env.resolve(t), ex.env.leaves(t))
		}
		return &SV{V: ex.zeroVal(t), T: t}
	case "fresh":
		// fresh(x): x was allocated by this call
		a := c.eval(x.Args[0])
		var ref *Term
		if a.V.Sl != nil {
			ref = a.V.Sl.Arr
		} else {
			ref = ex.valTerm(a.V)
		}
		oldSt := c.old
		if oldSt == nil {
			oldSt = c.st
		}
		return boolSV(And(Gt(ref, IntLit(0)), Not(Select(ex.allocArr(oldSt), ref)), Select(ex.allocArr(c.st), ref)))
	case "mine":
		// mine(x): x is an object this invocation allocated itself (on this path).  Unlike fresh(x) this
		// excludes objects other threads allocated while this one was outside its critical sections.
		a := c.eval(x.Args[0])
		var ref *Term
		if a.V.Sl != nil {
			ref = a.V.Sl.Arr
		} else {
			ref = ex.valTerm(a.V)
		}
		var alts []*Term
		for _, f := range c.st.fresh {
			alts = append(alts, Eq(ref, f.ref))
		}
		if len(alts) == 0 {
			return boolSV(TFalse)
		}
		return boolSV(Or(alts...))
	case "onlyNew":
		// onlyNew(x1, ..): every object allocated now was allocated in the pre-state or is one of the x_i
		oldSt := c.old
		if oldSt == nil {
			oldSt = c.st
		}
		x0 := c.newBound("o", SRef)
		var alts []*Term
		alts = append(alts, Select(ex.allocArr(oldSt), x0))
		for _, a := range x.Args {
			av := c.eval(a)
			var ref *Term
			if av.V.Sl != nil {
				ref = av.V.Sl.Arr
			} else {
				ref = ex.valTerm(av.V)
			}
			alts = append(alts, Eq(x0, ref))
		}
		return boolSV(Forall([]*Term{x0}, Implies(Select(ex.allocArr(c.st), x0), Or(alts...)), []*Term{Select(ex.allocArr(c.st), x0)}))
	case "allocated":
		a := c.eval(x.Args[0])
		var ref *Term
		if a.V.Sl != nil {
			ref = a.V.Sl.Arr
		} else {
			ref = ex.valTerm(a.V)
		}
		return boolSV(Select(ex.allocArr(c.st), ref))
	case "sameArray":
		a, b := c.eval(x.Args[0]), c.eval(x.Args[1])
		return boolSV(Eq(a.V.Sl.Arr, b.V.Sl.Arr))
	case "off":
		a := c.eval(x.Args[0])
		return &SV{V: scalar(a.V.Sl.Off), T: c.intType()}
	case "arr":
		a := c.eval(x.Args[0])
		return &SV{V: scalar(a.V.Sl.Arr), T: types.Typ[types.UnsafePointer]}
	case "in":
		a, set := c.eval(x.Args[0]), c.eval(x.Args[1])
		el, ok := isSetType(c.ex.env.resolve(set.T))
		if !ok {
			c.fail("in(x, S): S is not a set")
		}
		return boolSV(Select(set.V.T, c.term(a, ex.env.scalarSort(el))))
	case "add", "remove":
		set, a := c.eval(x.Args[0]), c.eval(x.Args[1])
		el, ok := isSetType(c.ex.env.resolve(set.T))
		if !ok {
			c.fail("%s(S, x): S is not a set", id.Name)
		}
		v := TTrue
		if id.Name == "remove" {
			v = TFalse
		}
		return &SV{V: scalar(Store(set.V.T, c.term(a, ex.env.scalarSort(el)), v)), T: set.T}
	case "rangeVisited":
		a := c.eval(x.Args[0])
		vis := ex.currentRangeVisited(c.st)
		if vis == nil {
			c.fail("rangeVisited: no (unique) map range in this function")
		}
		ks, _ := vis.Sort.ArrayParts()
		return boolSV(Select(vis, c.term(a, ks)))
	case "byteAt":
		// byteAt(arrayRef, absoluteIndex): a byte of a storage array
		a := c.eval(x.Args[0])
		i := c.term(c.eval(x.Args[1]), ex.env.IntS())
		bt := types.Typ[types.Uint8]
		return &SV{V: scalar(Select(Select(ex.elemArr(c.st, bt, "", SBV8), ex.valTerm(a.V)), i)), T: bt}
	case "bytesOfArr":
		// bytesOfArr(arrayRef): the whole content of a byte storage array in the current state, as a seq[byte]
		a := c.eval(x.Args[0])
		bt := types.Typ[types.Uint8]
		return &SV{V: scalar(Select(ex.elemArr(c.st, bt, "", SBV8), ex.valTerm(a.V))), T: seqType(bt, ex.env.typeKey(bt))}
	case "anyType":
		a := c.eval(x.Args[0])
		f := ex.env.d.Func("any_type", SBool, SRef)
		return boolSV(ex.env.d.Apply(f.Name, ex.valTerm(a.V)))
	case "cast":
		// cast(T, x): the same reference viewed at (pointer/interface) type T
		t := c.resolveType(x.Args[0])
		a := c.eval(x.Args[1])
		return &SV{V: scalar(ex.valTerm(a.V)), T: t}
	case "boxedString":
		// boxedString(x): the string boxed in the interface value x (meaningful if typeIs(x, string))
		a := c.eval(x.Args[0])
		f := ex.env.d.Func(symSafe("unbox "+ex.env.typeKey(types.Typ[types.String])+" "), ex.strSort(), SRef)
		return &SV{V: scalar(App(f.Name, ex.strSort(), ex.valTerm(a.V))), T: types.Typ[types.String]}
	case "boxedBytes":
		// boxedBytes(x): the storage array of the []byte value boxed in the interface value x (meaningful if typeIs(x, []byte))
		a := c.eval(x.Args[0])
		bt := types.NewSlice(types.Typ[types.Uint8])
		f := ex.env.d.Func(symSafe("unbox "+ex.env.typeKey(ex.env.resolve(bt))+" .arr"), SRef, SRef)
		return &SV{V: scalar(App(f.Name, SRef, ex.valTerm(a.V))), T: types.Typ[types.UnsafePointer]}
	case "concat":
		// concat(a, b): concatenation of two strings
		a, b := c.eval(x.Args[0]), c.eval(x.Args[1])
		return &SV{V: scalar(ex.strCat(c.term(a, ex.strSort()), c.term(b, ex.strSort()))), T: types.Typ[types.String]}
	case "strdata":
		a := c.eval(x.Args[0])
		return &SV{V: scalar(ex.strData(a.V.T)), T: types.Typ[types.UnsafePointer]}
	case "writable":
		a := c.eval(x.Args[0])
		ex.strData(nil)
		return boolSV(Not(App("is_strdata", SBool, a.V.Sl.Arr)))
	case "disjoint":
		a, b := c.eval(x.Args[0]), c.eval(x.Args[1])
		sa, sb := a.V.Sl, b.V.Sl
		return boolSV(Or(Neq(sa.Arr, sb.Arr),
			ex.sle(ex.iadd(sa.Off, sa.Cap), sb.Off), ex.sle(ex.iadd(sb.Off, sb.Cap), sa.Off)))
	case "has":
		m := c.eval(x.Args[0])
		mt := ex.env.resolve(m.T).Underlying().(*types.Map)
		k := c.term(c.eval(x.Args[1]), ex.env.scalarSort(mt.Key()))
		return boolSV(ex.mapHas(c.st, ex.valTerm(m.V), mt, k))
	case "errIs":
		a, b := c.eval(x.Args[0]), c.eval(x.Args[1])
		return boolSV(ex.errIs(ex.valTerm(a.V), ex.valTerm(b.V)))
	case "typeIs":
		a := c.eval(x.Args[0])
		t := c.resolveType(x.Args[1])
		return boolSV(ex.dynTypeIs(ex.valTerm(a.V), t))
	case "implements":
		// implements(x, I): x is non-nil and its dynamic type implements interface I (what x.(I) tests)
		a := c.eval(x.Args[0])
		t := ex.env.resolve(c.resolveType(x.Args[1]))
		f := ex.env.d.Func(symSafe("implements "+ex.env.typeKey(t)), SBool, SInt)
		r := ex.valTerm(a.V)
		return boolSV(And(Neq(r, IntLit(0)), ex.env.d.Apply(f.Name, ex.dtype(r))))
	case "held":
		// held(v): the interface value an atomic.Value holds
		a := c.eval(x.Args[0])
		tm := ex.valTerm(a.V)
		get := ex.env.d.Func("av_get", SRef, tm.Sort)
		return &SV{V: scalar(ex.env.d.Apply(get.Name, tm)), T: types.NewInterfaceType(nil, nil)}
	case "recvReady":
		a := c.eval(x.Args[0])
		f := ex.env.d.Func("recvReady", SBool, SRef)
		return boolSV(ex.env.d.Apply(f.Name, ex.valTerm(a.V)))
	case "sent", "received":
		// sent(ch) / received(ch): number of sends / completed receives on ch performed by this invocation (ghost)
		a := c.eval(x.Args[0])
		key := "chan sent"
		if id.Name == "received" {
			key = "chan recvd"
		}
		return &SV{V: scalar(Select(ex.heapGet(c.st, key, ArraySort(SRef, SInt)), ex.valTerm(a.V))), T: c.intType()}
	case "closed":
		a := c.eval(x.Args[0])
		return boolSV(Select(ex.heapGet(c.st, "chan closed", ArraySort(SRef, SBool)), ex.valTerm(a.V)))
	}
	// type conversion?
	if t := c.tryResolveType(x.Fun); t != nil && len(x.Args) == 1 {
		if _, isSpec := ex.P.Specs.SpecFuncs[c.pkgPath()+"."+id.Name]; !isSpec {
			return c.convert(t, c.eval(x.Args[0]))
		}
	}
	// user spec function
	if sf := c.findSpecFunc(id.Name); sf != nil {
		return c.applySpecFunc(sf, nil, x.Args)
	}
	c.fail("unknown function %s in spec", id.Name)
	return nil
}

func (c *SpecCtx) pkgPath() string {
	if c.pkg == nil {
		return ""
	}
	return c.pkg.Path()
}

func (c *SpecCtx) findSpecFunc(name string) *SpecFunc {
	if sf := c.ex.P.Specs.SpecFuncs[c.pkgPath()+"."+name]; sf != nil {
		return sf
	}
	var found *SpecFunc
	for k, sf := range c.ex.P.Specs.SpecFuncs {
		if strings.HasSuffix(k, "."+name) && !strings.Contains(k, ").") {
			if found != nil {
				c.fail("ambiguous spec function %s", name)
			}
			found = sf
		}
	}
	return found
}

func (c *SpecCtx) findMethodSpec(recv *SV, name string) *SpecFunc {
	if recv.T == nil {
		return nil
	}
	t := c.ex.env.resolve(recv.T)
	if p, ok := t.Underlying().(*types.Pointer); ok {
		t = c.ex.env.resolve(p.Elem())
	}
	n, ok := types.Unalias(t).(*types.Named)
	if !ok {
		return nil
	}
	pkg := ""
	if n.Obj().Pkg() != nil {
		pkg = n.Obj().Pkg().Path()
	}
	return c.ex.P.Specs.SpecFuncs[pkg+".("+n.Obj().Name()+")."+name]
}

func (c *SpecCtx) convert(t types.Type, a *SV) *SV {
	ex := c.ex
	rt := ex.env.resolve(t)
	if _, _, ok := intInfo(rt); ok {
		toSort := ex.env.scalarSort(rt)
		if a.Const != nil {
			if toSort.IsBV() {
				return &SV{V: scalar(BVLit(a.Const, toSort.BVWidth())), T: t}
			}
			return &SV{V: scalar(IntLitBig(a.Const)), T: t}
		}
		tm := c.term(a, "")
		if a.T == nil {
			// spec-level integer without Go type
			if tm.Sort == toSort {
				return &SV{V: scalar(tm), T: t}
			}
			c.fail("conversion of untyped spec value")
		}
		if ex.env.mode == ModeInt && tm.Sort == SInt && toSort == SInt {
			// spec integers are mathematical: conversions between Int-sorted
			// types are the identity (range is the user's responsibility)
			return &SV{V: scalar(tm), T: t}
		}
		return &SV{V: scalar(ex.convertInt(tm, ex.env.resolve(a.T), rt)), T: t}
	}
	// other conversions: identity on representation
	return &SV{V: a.V, T: t, Const: a.Const}
}

func (c *SpecCtx) evalQuant(kind string, x *ast.CallExpr) *SV {
	ex := c.ex
	id, ok := x.Args[0].(*ast.Ident)
	if !ok {
		c.fail("%s: first argument must be the bound variable", kind)
	}
	mk := func(bound *Term, body *Term) *SV {
		if kind == "forall" {
			return boolSV(Forall([]*Term{bound}, body, selectPatterns(body, bound)...))
		}
		return boolSV(Exists([]*Term{bound}, body))
	}
	// typed form with explicit triggers: forall(x, T, body, trig1, trig2, ...)
	if len(x.Args) >= 4 {
		if t := c.tryResolveType(x.Args[1]); t != nil {
			if _, isInt := x.Args[1].(*ast.BasicLit); !isInt {
				s := ex.env.scalarSort(t)
				bv := c.newBound(id.Name, s)
				inner := c.with(map[string]*SV{id.Name: {V: scalar(bv), T: t}})
				body := inner.EvalBool(x.Args[2])
				if pt := ex.structPtr(t); pt != nil {
					guard := Eq(ex.dtype(bv), ex.typeTag(pt))
					if kind == "forall" {
						body = Implies(guard, body)
					} else {
						body = And(guard, body)
					}
				}
				var pats [][]*Term
				for _, pe := range x.Args[3:] {
					// a trigger may be a multi-pattern: mp(t1, t2)
					if ce, ok := pe.(*ast.CallExpr); ok {
						if fid, ok := ce.Fun.(*ast.Ident); ok && fid.Name == "mp" {
							var mpat []*Term
							for _, a := range ce.Args {
								mpat = append(mpat, inner.term(inner.eval(a), ""))
							}
							pats = append(pats, mpat)
							continue
						}
					}
					pats = append(pats, []*Term{inner.term(inner.eval(pe), "")})
				}
				if kind == "forall" {
					return boolSV(Forall([]*Term{bv}, body, pats...))
				}
				return boolSV(Exists([]*Term{bv}, body))
			}
		}
	}
	switch len(x.Args) {
	case 4:
		is := ex.env.IntS()
		bv := c.newBound(id.Name, is)
		lo := c.term(c.eval(x.Args[1]), is)
		hi := c.term(c.eval(x.Args[2]), is)
		inner := c.with(map[string]*SV{id.Name: {V: scalar(bv), T: c.intType()}})
		body := inner.EvalBool(x.Args[3])
		rng := And(ex.sle(lo, bv), ex.slt(bv, hi))
		// re-base the quantifier on an absolute storage index when the bound
		// variable is used as  select(A, OFF + i): triggers without arithmetic
		if off := shiftCandidate(body, bv); off != nil && !c.noRebase && !is.IsBV() {
			// keep the original form as well when it has a trigger of its own (f(.., i, ..))
			var orig *SV
			if hasUFPattern(body, bv, ex.env.d) {
				if kind == "forall" {
					orig = boolSV(Forall([]*Term{bv}, Implies(rng, body), ufPatterns(body, bv, ex.env.d)...))
				}
			}
			kv := c.newBound(id.Name+"_abs", is)
			var repl *Term
			if is.IsBV() {
				repl = App("bvsub", is, kv, off)
			} else {
				repl = Sub(kv, off)
			}
			m := map[string]*Term{bv.Op: repl}
			body = simplifyShift(body.Subst(m))
			rng = simplifyShift(rng.Subst(m))
			bv = kv
			if orig != nil {
				reb := mk(bv, Implies(rng, body))
				return boolSV(And(orig.V.T, reb.V.T))
			}
		}
		if kind == "forall" {
			return mk(bv, Implies(rng, body))
		}
		return mk(bv, And(rng, body))
	case 3:
		t := c.resolveType(x.Args[1])
		s := ex.env.scalarSort(t)
		bv := c.newBound(id.Name, s)
		inner := c.with(map[string]*SV{id.Name: {V: scalar(bv), T: t}})
		body := inner.EvalBool(x.Args[2])
		// typed quantification ranges over well-typed values
		// typed quantifiers range over the whole sort (typing facts such as
		// string lengths are global axioms, not guards)
		ti := TTrue
		if pt := ex.structPtr(t); pt != nil {
			ti = Eq(ex.dtype(bv), ex.typeTag(pt))
		}
		if kind == "forall" {
			return mk(bv, Implies(ti, body))
		}
		return mk(bv, And(ti, body))
	}
	c.fail("%s(i, lo, hi, body) or %s(x, T, body)", kind, kind)
	return nil
}

func (c *SpecCtx) applySpecFunc(sf *SpecFunc, recv *SV, args []ast.Expr) *SV {
	ex := c.ex
	if len(args) != len(sf.Params) {
		c.fail("spec function %s: %d args, want %d", sf.Name, len(args), len(sf.Params))
	}
	names := map[string]*SV{}
	if recv != nil {
		rn := sf.RecvName
		if rn == "" {
			rn = "self"
		}
		names[rn] = recv
	}
	var pkg *types.Package
	if sp := ex.P.SPkgs[sf.PkgPath]; sp != nil {
		pkg = sp.Pkg
	}
	defCtx := &SpecCtx{ex: ex, st: c.st, old: c.old, pkg: pkg, tparms: c.tparms, nbound: c.nbound}
	if recv != nil && len(sf.RecvTParams) > 0 && recv.T != nil {
		// the header's type parameter names denote the receiver's type arguments
		if n, ok := types.Unalias(derefType(ex.env.resolve(recv.T))).(*types.Named); ok && n.TypeArgs() != nil && n.TypeArgs().Len() == len(sf.RecvTParams) {
			tp := map[string]types.Type{}
			for k, v := range c.tparms {
				tp[k] = v
			}
			for i, name := range sf.RecvTParams {
				tp[name] = n.TypeArgs().At(i)
			}
			defCtx.tparms = tp
		}
	}
	for i, a := range args {
		v := c.eval(a)
		if v.Const != nil && i < len(sf.ParamTys) {
			// give constants the declared parameter type
			if t := defCtx.tryResolveType(sf.ParamTys[i]); t != nil {
				v = c.convert(t, v)
			}
		} else if v.T != nil && i < len(sf.ParamTys) && v.V != nil && v.V.T != nil {
			if t := defCtx.tryResolveType(sf.ParamTys[i]); t != nil {
				if _, _, isInt := intInfo(ex.env.resolve(t)); isInt {
					if _, _, isInt2 := intInfo(ex.env.resolve(v.T)); isInt2 {
						v = c.convert(t, v)
					}
				}
			}
		}
		names[sf.Params[i]] = v
	}
	if ex.specDepth > 40 {
		c.fail("spec function expansion too deep (recursive without 'rec'?) in %s", sf.Name)
	}
	if id, ok := sf.Body.(*ast.Ident); ok && id.Name == "uninterpreted" {
		return c.applyOpaque(sf, defCtx, names, recv)
	}
	if sf.BVOnly && ex.env.mode != ModeBV || ex.spec != nil && ex.spec.Opaque[sf.Name] {
		return c.applyOpaque(sf, defCtx, names, recv)
	}
	if sf.Trig {
		return c.applyTrig(sf, defCtx, names, recv)
	}
	if sf.Rec {
		return c.applyRec(sf, defCtx, names, recv)
	}
	ex.specDepth++
	defer func() { ex.specDepth-- }()
	inner := defCtx.with(names)
	res := inner.eval(sf.Body)
	if sf.RetTy != nil {
		if t := defCtx.tryResolveType(sf.RetTy); t != nil {
			if res.Const != nil {
				res = c.convert(t, res)
			} else if res.T == nil {
				res.T = t
			}
		}
	}
	return res
}

// applyOpaque applies a spec function as an uninterpreted function of its
// scalar arguments (slices contribute their storage contents, offset and length).
func (c *SpecCtx) applyOpaque(sf *SpecFunc, defCtx *SpecCtx, names map[string]*SV, recv *SV) *SV {
	ex := c.ex
	var args []*Term
	order := append([]string{}, sf.Params...)
	if recv != nil {
		rn := sf.RecvName
		if rn == "" {
			rn = "self"
		}
		order = append([]string{rn}, order...)
	}
	for _, n := range order {
		v := names[n]
		if v.Const != nil {
			args = append(args, c.term(v, ""))
			continue
		}
		if v.V.Sl != nil {
			et := ex.env.resolve(v.T).Underlying().(*types.Slice).Elem()
			ls := ex.env.leaves(et)
			for _, l := range ls {
				args = append(args, Select(ex.elemArr(c.st, et, l.Path, l.Sort), v.V.Sl.Arr))
			}
			args = append(args, v.V.Sl.Off, v.V.Sl.Len)
			continue
		}
		ex.flatten(v.T, v.V, "", func(l Leaf, t *Term) { args = append(args, t) })
	}
	var ret Sort = SBool
	var rt types.Type = types.Typ[types.Bool]
	if sf.RetTy != nil {
		rt = defCtx.resolveType(sf.RetTy)
		ret = ex.env.scalarSort(rt)
	}
	var sorts []Sort
	for _, a := range args {
		sorts = append(sorts, a.Sort)
	}
	name := "sf_" + sanitizeName(sf.Name)
	for _, s := range sorts {
		name += "_" + sanitizeName(string(s))
	}
	ex.env.d.Func(name, ret, sorts...)
	return &SV{V: scalar(ex.env.d.Apply(name, args...)), T: rt}
}

// applyRec: recursive spec function over scalar arguments and the heap-free
// fragment: declared uninterpreted with its definition as a quantified axiom.
func (c *SpecCtx) applyRec(sf *SpecFunc, defCtx *SpecCtx, names map[string]*SV, recv *SV) *SV {
	c.fail("recursive spec functions are not supported yet (%s)", sf.Name)
	return nil
}

// selectPatterns proposes triggers for a quantified body: every term
// (select A i) whose index is exactly the bound variable and whose array
// does not mention it.
func selectPatterns(body *Term, bound *Term) [][]*Term {
	seen := map[string]bool{}
	var pats [][]*Term
	inner := map[string]bool{}
	var mentions func(t *Term, names map[string]bool) bool
	mentions = func(t *Term, names map[string]bool) bool {
		if t.IntVal != nil {
			return false
		}
		if len(t.Args) == 0 {
			return names[t.Op]
		}
		for _, a := range t.Args {
			if mentions(a, names) {
				return true
			}
		}
		return false
	}
	self := map[string]bool{bound.Op: true}
	var walk func(t *Term)
	walk = func(t *Term) {
		if t.IntVal != nil {
			return
		}
		if t.Op == "forall" || t.Op == "exists" {
			for _, b := range t.Bound {
				inner[b.Op] = true
			}
			walk(t.Args[0])
			return
		}
		if t.Op == "select" && len(t.Args) == 2 && len(t.Args[1].Args) == 0 && t.Args[1].Op == bound.Op && !mentions(t.Args[0], self) && !mentions(t.Args[0], inner) {
			k := t.String()
			if !seen[k] {
				seen[k] = true
				pats = append(pats, []*Term{t})
			}
		}
		for _, a := range t.Args {
			walk(a)
		}
	}
	walk(body)
	if len(pats) > 4 {
		return nil
	}
	return pats
}

// shiftCandidate finds the first OFF such that (select A (+ OFF i)) occurs in
// body with i the bound variable and OFF free of it.
func shiftCandidate(body *Term, bound *Term) *Term {
	var found *Term
	inner := map[string]bool{}
	var mentions func(t *Term, names map[string]bool) bool
	mentions = func(t *Term, names map[string]bool) bool {
		if t.IntVal != nil {
			return false
		}
		if len(t.Args) == 0 {
			return names[t.Op]
		}
		for _, a := range t.Args {
			if mentions(a, names) {
				return true
			}
		}
		return false
	}
	self := map[string]bool{bound.Op: true}
	var walk func(t *Term)
	walk = func(t *Term) {
		if found != nil || t.IntVal != nil {
			return
		}
		if t.Op == "select" && len(t.Args) == 2 {
			ix := t.Args[1]
			if (ix.Op == "+" || ix.Op == "bvadd") && len(ix.Args) == 2 && len(ix.Args[1].Args) == 0 && ix.Args[1].Op == bound.Op && ix.Args[1].IntVal == nil &&
				!mentions(ix.Args[0], self) && !mentions(t.Args[0], self) && !mentions(ix.Args[0], inner) && !mentions(t.Args[0], inner) {
				found = ix.Args[0]
				return
			}
		}
		if t.Op == "forall" || t.Op == "exists" {
			for _, b := range t.Bound {
				inner[b.Op] = true
			}
			walk(t.Args[0])
			return
		}
		for _, a := range t.Args {
			walk(a)
		}
	}
	walk(body)
	return found
}

// simplifyShift rewrites (+ A (- K A)) to K (and the bit-vector analogue).
func simplifyShift(t *Term) *Term {
	if t.IntVal != nil || len(t.Args) == 0 {
		return t
	}
	if t.Op == "forall" || t.Op == "exists" {
		nb := simplifyShift(t.Args[0])
		var np [][]*Term
		for _, p := range t.Pats {
			var q []*Term
			for _, pt := range p {
				q = append(q, simplifyShift(pt))
			}
			np = append(np, q)
		}
		return &Term{Op: t.Op, Sort: t.Sort, Args: []*Term{nb}, Bound: t.Bound, Pats: np}
	}
	na := make([]*Term, len(t.Args))
	changed := false
	for i, a := range t.Args {
		na[i] = simplifyShift(a)
		if na[i] != a {
			changed = true
		}
	}
	if (t.Op == "+" || t.Op == "bvadd") && len(na) == 2 {
		sub := "-"
		if t.Op == "bvadd" {
			sub = "bvsub"
		}
		if na[1].Op == sub && len(na[1].Args) == 2 && na[1].Args[1].String() == na[0].String() {
			return na[1].Args[0]
		}
		if na[0].Op == sub && len(na[0].Args) == 2 && na[0].Args[1].String() == na[1].String() {
			return na[0].Args[0]
		}
	}
	if !changed {
		return t
	}
	return &Term{Op: t.Op, Sort: t.Sort, Args: na}
}

func ufPatterns(body *Term, bound *Term, d *Decls) [][]*Term {
	seen := map[string]bool{}
	var pats [][]*Term
	var mentions func(t *Term) bool
	mentions = func(t *Term) bool {
		if t.IntVal != nil {
			return false
		}
		if len(t.Args) == 0 {
			return t.Op == bound.Op
		}
		for _, a := range t.Args {
			if mentions(a) {
				return true
			}
		}
		return false
	}
	var walk func(t *Term)
	walk = func(t *Term) {
		if t.IntVal != nil || t.Op == "forall" || t.Op == "exists" {
			return
		}
		if f, ok := d.Funcs[t.Op]; ok && len(f.Args) > 0 && len(t.Args) > 0 {
			direct := false
			okp := true
			for _, a := range t.Args {
				if len(a.Args) == 0 && a.IntVal == nil && a.Op == bound.Op {
					direct = true
				} else if mentions(a) {
					okp = false
				}
			}
			if direct && okp && !seen[t.String()] {
				seen[t.String()] = true
				pats = append(pats, []*Term{t})
			}
		}
		for _, a := range t.Args {
			walk(a)
		}
	}
	walk(body)
	return pats
}

func hasUFPattern(body *Term, bound *Term, d *Decls) bool {
	return len(ufPatterns(body, bound, d)) > 0
}

func (c *SpecCtx) findGhostGlobal(name string) *GhostGlobal {
	if gg := c.ex.P.Specs.GGlobals[c.pkgPath()+"."+name]; gg != nil {
		return gg
	}
	var found *GhostGlobal
	for k, gg := range c.ex.P.Specs.GGlobals {
		if strings.HasSuffix(k, "."+name) {
			if found != nil {
				return nil
			}
			found = gg
		}
	}
	return found
}

func (c *SpecCtx) ghostGlobalType(gg *GhostGlobal) types.Type {
	var pkg *types.Package
	if sp := c.ex.P.SPkgs[gg.PkgPath]; sp != nil {
		pkg = sp.Pkg
	}
	cc := *c
	cc.pkg = pkg
	return cc.resolveType(gg.Type)
}

func ghostGlobalKey(gg *GhostGlobal) string { return "GG " + shortKey(gg.PkgPath) + "." + gg.Name }

func (c *SpecCtx) loadGhostGlobal(gg *GhostGlobal) *SV {
	t := c.ghostGlobalType(gg)
	v := c.ex.buildVal(t, "", func(l Leaf) *Term {
		return c.ex.heapGet(c.st, ghostGlobalKey(gg)+" "+l.Path, l.Sort)
	})
	return &SV{V: v, T: t}
}

// applyTrig applies a spec function as an uninterpreted function of its
// arguments and adds (once) its definition as an axiom triggered on the
// application.  The body may depend on its parameters only (slices through
// their contents, offset and length), not on the rest of the heap.
func (c *SpecCtx) applyTrig(sf *SpecFunc, defCtx *SpecCtx, names map[string]*SV, recv *SV) *SV {
	ex := c.ex
	var args []*Term
	var bound []*Term
	bnames := map[string]*SV{}
	order := append([]string{}, sf.Params...)
	if recv != nil {
		rn := sf.RecvName
		if rn == "" {
			rn = "self"
		}
		order = append([]string{rn}, order...)
	}
	nb := 0
	newB := func(s Sort) *Term {
		nb++
		return Sym(fmt.Sprintf("%s!p%d", sanitizeName(sf.Name), nb), s)
	}
	for _, n := range order {
		v := names[n]
		if v.Const != nil {
			c.fail("constant argument to triggered spec function %s needs a typed parameter", sf.Name)
		}
		if v.V.Sl != nil {
			et := ex.env.resolve(v.T).Underlying().(*types.Slice).Elem()
			inner := map[string]*Term{}
			for _, l := range ex.env.leaves(et) {
				var a *Term
				if v.V.Sl.Inner != nil {
					a = v.V.Sl.Inner[l.Path]
				} else {
					a = Select(ex.elemArr(c.st, et, l.Path, l.Sort), v.V.Sl.Arr)
				}
				args = append(args, a)
				b := newB(a.Sort)
				bound = append(bound, b)
				inner[l.Path] = b
			}
			args = append(args, v.V.Sl.Off, v.V.Sl.Len)
			bo, bl := newB(v.V.Sl.Off.Sort), newB(v.V.Sl.Len.Sort)
			bound = append(bound, bo, bl)
			bnames[n] = &SV{V: &Val{Sl: &SliceV{Arr: IntLit(0), Off: bo, Len: bl, Cap: bl, Inner: inner}}, T: v.T}
			continue
		}
		var bs []*Term
		ex.flatten(v.T, v.V, "", func(l Leaf, t *Term) {
			args = append(args, t)
			b := newB(t.Sort)
			bound = append(bound, b)
			bs = append(bs, b)
		})
		k := 0
		bnames[n] = &SV{V: ex.buildVal(v.T, "", func(l Leaf) *Term { k++; return bs[k-1] }), T: v.T}
	}
	var ret Sort = SBool
	var rt types.Type = types.Typ[types.Bool]
	if sf.RetTy != nil {
		rt = defCtx.resolveType(sf.RetTy)
		ret = ex.env.scalarSort(rt)
	}
	var sorts []Sort
	for _, a := range args {
		sorts = append(sorts, a.Sort)
	}
	name := "sf_" + sanitizeName(sf.Name)
	for _, s := range sorts {
		name += "_" + sanitizeName(string(s))
	}
	ex.env.d.Func(name, ret, sorts...)
	if !ex.recDefs[name] {
		ex.recDefs[name] = true
		ex.specDepth++
		inner := defCtx.with(bnames)
		body := inner.eval(sf.Body)
		ex.specDepth--
		app := App(name, ret, bound...)
		bt := inner.term(body, ret)
		ex.addAxiom(Forall(bound, Eq(app, bt), []*Term{app}))
	}
	return &SV{V: scalar(ex.env.d.Apply(name, args...)), T: rt}
}

