package main

// selftest: the must-fail corpus.  Every seeded change under /verif/seeded
// (patch.diff + meta.json naming the property) is applied to a scratch copy
// of the touched files and handed to the loader as an in-memory overlay
// (nothing is written into /repo); the property check must then report a
// violation.  The unchanged tree must pass.

import (
	"encoding/json"
	"fmt"
	"os"
	"os/exec"
	"path/filepath"
	"sort"
	"strings"
)

// overlayFromPatch applies a unified diff to copies of the files it touches
// and returns an overlay (absolute /repo path -> patched content).
func overlayFromPatch(repo, patch string) (map[string][]byte, error) {
	if abs, err := filepath.Abs(patch); err == nil {
		patch = abs
	}
	data, err := os.ReadFile(patch)
	if err != nil {
		return nil, err
	}
	var files []string
	for _, ln := range strings.Split(string(data), "\n") {
		if strings.HasPrefix(ln, "+++ b/") {
			files = append(files, strings.TrimSpace(strings.TrimPrefix(ln, "+++ b/")))
		}
	}
	tmp, err := os.MkdirTemp(workDir, "patch-")
	if err != nil {
		return nil, err
	}
	defer os.RemoveAll(tmp)
	for _, f := range files {
		src := filepath.Join(repo, f)
		dst := filepath.Join(tmp, f)
		os.MkdirAll(filepath.Dir(dst), 0o755)
		b, err := os.ReadFile(src)
		if err != nil {
			return nil, err
		}
		os.WriteFile(dst, b, 0o644)
	}
	cmd := exec.Command("patch", "-p1", "-s", "-i", patch)
	cmd.Dir = tmp
	if out, err := cmd.CombinedOutput(); err != nil {
		return nil, fmt.Errorf("patch failed: %v: %s", err, out)
	}
	ov := map[string][]byte{}
	for _, f := range files {
		b, err := os.ReadFile(filepath.Join(tmp, f))
		if err != nil {
			return nil, err
		}
		ov[filepath.Join(repo, f)] = b
	}
	return ov, nil
}

func runSelftest(repo, verifDir string, only string) int {
	dirs, _ := filepath.Glob(filepath.Join(verifDir, "seeded", "*"))
	sort.Strings(dirs)
	bad := 0
	n := 0
	oos := 0
	for _, d := range dirs {
		var meta struct {
			Property string `json:"property"`
			Expected string `json:"expected"` // "" = must be detected; "missed-out-of-scope" = recorded as outside the claimed scope
		}
		b, err := os.ReadFile(filepath.Join(d, "meta.json"))
		if err != nil {
			continue
		}
		json.Unmarshal(b, &meta)
		if meta.Property == "" || (only != "" && !strings.Contains(filepath.Base(d), only) && meta.Property != only) {
			continue
		}
		ov, err := overlayFromPatch(repo, filepath.Join(d, "patch.diff"))
		if err != nil {
			fmt.Printf("selftest %s: cannot apply: %v\n", filepath.Base(d), err)
			bad++
			continue
		}
		n++
		opts := CheckOpts{Prop: meta.Property, Tier: "quick", TimeoutS: 20}
		// silence the check's own output
		old := os.Stdout
		devnull, _ := os.Open(os.DevNull)
		null, _ := os.OpenFile(os.DevNull, os.O_WRONLY, 0)
		os.Stdout = null
		code := runCheck(repo, verifDir, opts, ov, false)
		os.Stdout = old
		devnull.Close()
		null.Close()
		if code == 0 && meta.Expected == "missed-out-of-scope" {
			fmt.Printf("selftest %-8s (%s): not detected - recorded as outside the claimed scope of the check\n", filepath.Base(d), meta.Property)
			oos++
		} else if code == 0 {
			fmt.Printf("selftest %-8s (%s): NOT DETECTED\n", filepath.Base(d), meta.Property)
			bad++
		} else {
			fmt.Printf("selftest %-8s (%s): detected\n", filepath.Base(d), meta.Property)
		}
	}
	fmt.Printf("selftest: %d seeded changes, %d not detected, %d outside the claimed scope (recorded)\n", n, bad, oos)
	// must-pass corpus: behaviour-preserving refactorings must not raise an alarm
	rdirs, _ := filepath.Glob(filepath.Join(verifDir, "refactorings", "*"))
	sort.Strings(rdirs)
	rn, alarms := 0, 0
	for _, d := range rdirs {
		if only != "" && !strings.Contains(filepath.Base(d), only) {
			continue
		}
		var meta struct {
			Properties []string `json:"properties"`
		}
		b, err := os.ReadFile(filepath.Join(d, "meta.json"))
		if err != nil {
			continue
		}
		json.Unmarshal(b, &meta)
		ov, err := overlayFromPatch(repo, filepath.Join(d, "patch.diff"))
		if err != nil {
			fmt.Printf("selftest %s: does not apply to this tree (skipped)\n", filepath.Base(d))
			continue
		}
		rn++
		for _, prop := range meta.Properties {
			old := os.Stdout
			null, _ := os.OpenFile(os.DevNull, os.O_WRONLY, 0)
			os.Stdout = null
			code := runCheck(repo, verifDir, CheckOpts{Prop: prop, Tier: "quick", TimeoutS: 20}, ov, false)
			os.Stdout = old
			null.Close()
			if code != 0 {
				fmt.Printf("selftest %-8s (%s): FALSE ALARM on a behaviour-preserving refactoring\n", filepath.Base(d), prop)
				alarms++
			}
		}
	}
	if rn > 0 {
		fmt.Printf("selftest: %d behaviour-preserving refactorings, %d false alarms\n", rn, alarms)
		bad += alarms
	}
	if bad > 0 {
		return 1
	}
	return 0
}

// runReplayFile re-runs the replay test stored in a replay record.
func runReplayFile(repo, verifDir, file string) int {
	b, err := os.ReadFile(file)
	if err != nil {
		fmt.Println(err)
		return 2
	}
	var rec struct {
		Property   string `json:"property"`
		Obligation string `json:"obligation"`
		Function   string `json:"function"`
		What       string `json:"what"`
		Solver     string `json:"solver_status"`
		Replay     *struct {
			Confirmed bool   `json:"confirmed"`
			Summary   string `json:"summary"`
			Test      string `json:"test"`
		} `json:"replay"`
	}
	if err := json.Unmarshal(b, &rec); err != nil {
		fmt.Println(err)
		return 2
	}
	fmt.Printf("property %s obligation %s (%s)\n  %s\n  solver: %s\n", rec.Property, rec.Obligation, rec.Function, rec.What, rec.Solver)
	if rec.Replay == nil || rec.Replay.Test == "" {
		fmt.Println("  no replayable input was synthesised for this obligation (see solver_output/model in the file)")
		return 1
	}
	fmt.Println("  recorded:", rec.Replay.Summary)
	// find the package directory from the function key
	key := rec.Function
	pkg := key
	if i := strings.Index(key, ".("); i >= 0 {
		pkg = key[:i]
	} else if i := strings.LastIndex(key, "."); i >= 0 {
		pkg = key[:i]
	}
	pkgDir := filepath.Join(repo, strings.TrimPrefix(strings.TrimPrefix(pkg, modulePath), "/"))
	dir, _ := os.MkdirTemp(workDir, "replay-")
	defer os.RemoveAll(dir)
	tf := filepath.Join(dir, "zz_gocv_replay_test.go")
	os.WriteFile(tf, []byte(rec.Replay.Test), 0o644)
	ov, _ := json.Marshal(map[string]map[string]string{"Replace": {filepath.Join(pkgDir, "zz_gocv_replay_test.go"): tf}})
	of := filepath.Join(dir, "overlay.json")
	os.WriteFile(of, ov, 0o644)
	cmd := exec.Command("go", "test", "-overlay", of, "-vet=off", "-count=1", "-timeout", "60s", "-run", "^TestGocvReplay$", "-v", ".")
	cmd.Dir = pkgDir
	env := []string{}
	for _, e := range os.Environ() {
		if !strings.HasPrefix(e, "GOFLAGS=") {
			env = append(env, e)
		}
	}
	cmd.Env = append(env, "GOFLAGS=", "GOPROXY=off", "GOSUMDB=off", "GOTOOLCHAIN=local")
	out, _ := cmd.CombinedOutput()
	for _, ln := range strings.Split(string(out), "\n") {
		if strings.HasPrefix(ln, "GOCV-REPLAY") {
			fmt.Println("  now:", ln)
		}
	}
	return 1
}

// runCorpus applies every seeded change recorded for prop through an overlay and reports which ones the
// quick check detects.
func runCorpus(repo, verifDir, prop string) map[string]any {
	dirs, _ := filepath.Glob(filepath.Join(verifDir, "seeded", "*"))
	sort.Strings(dirs)
	total, detected, oos, skipped := 0, 0, 0, 0
	missed := []string{}
	for _, d := range dirs {
		var meta struct {
			Property string `json:"property"`
			Expected string `json:"expected"`
		}
		b, err := os.ReadFile(filepath.Join(d, "meta.json"))
		if err != nil {
			continue
		}
		json.Unmarshal(b, &meta)
		if meta.Property != prop {
			continue
		}
		total++
		ov, err := overlayFromPatch(repo, filepath.Join(d, "patch.diff"))
		if err != nil {
			skipped++ // the tree has changed so that this seeded change no longer applies
			continue
		}
		old := os.Stdout
		null, _ := os.OpenFile(os.DevNull, os.O_WRONLY, 0)
		os.Stdout = null
		code := runCheck(repo, verifDir, CheckOpts{Prop: prop, Tier: "quick", TimeoutS: 20}, ov, false)
		os.Stdout = old
		null.Close()
		switch {
		case code != 0:
			detected++
		case meta.Expected == "missed-out-of-scope":
			oos++
		default:
			missed = append(missed, filepath.Base(d))
		}
	}
	return map[string]any{"total": total, "detected": detected, "out_of_scope": oos, "skipped": skipped, "missed": missed}
}

// runPassCorpus applies every stored behaviour-preserving refactoring that concerns prop through an overlay and
// reports how many the quick check accepts.
func runPassCorpus(repo, verifDir, prop string) map[string]any {
	var dirs []string
	for _, base := range []string{"refactorings", "refactorings_free"} {
		ds, _ := filepath.Glob(filepath.Join(verifDir, base, "*"))
		dirs = append(dirs, ds...)
	}
	sort.Strings(dirs)
	total, clean, skipped := 0, 0, 0
	alarms := []string{}
	for _, d := range dirs {
		var meta struct {
			Properties []string `json:"properties"`
		}
		b, err := os.ReadFile(filepath.Join(d, "meta.json"))
		if err != nil {
			continue
		}
		json.Unmarshal(b, &meta)
		concerns := false
		for _, p := range meta.Properties {
			if p == prop {
				concerns = true
			}
		}
		if !concerns {
			continue
		}
		total++
		ov, err := overlayFromPatch(repo, filepath.Join(d, "patch.diff"))
		if err != nil {
			skipped++
			continue
		}
		old := os.Stdout
		null, _ := os.OpenFile(os.DevNull, os.O_WRONLY, 0)
		os.Stdout = null
		code := runCheck(repo, verifDir, CheckOpts{Prop: prop, Tier: "quick", TimeoutS: 20}, ov, false)
		os.Stdout = old
		null.Close()
		if code == 0 {
			clean++
		} else {
			alarms = append(alarms, filepath.Base(d))
		}
	}
	return map[string]any{"total": total, "no_alarm": clean, "skipped": skipped, "false_alarms": alarms}
}
