package main

import (
	"runtime"
	"time"
	"fmt"
	"go/ast"
	"go/token"
	"go/types"
	"sort"
	"strings"

	"golang.org/x/tools/go/ssa"
)

type pathAbort struct{ reason string }

// VerifyFunc symbolically executes fn against its contract (projected on
// prop) and returns the generated obligations.
func VerifyFunc(P *Program, fn *ssa.Function, spec *FuncSpec, prop string) (ex *Exec, err error) {
	ex = &Exec{
		P: P, fn: fn, spec: spec, prop: prop,
		env:      &TEnv{mode: spec.Mode, d: NewDecls(), subst: map[*types.TypeParam]types.Type{}},
		initHeap: map[string]*Term{}, axiomSet: map[string]bool{}, strs: map[string]*Term{},
		entryVals: map[string]*Val{}, paramTypes: map[string]types.Type{}, ghostVals: map[string]*SV{},
		siteOrd: map[ssa.Instruction]int{}, maxPaths: maxPathsDefault, inputNames: map[string]string{},
		trusted: map[string]bool{}, callees: map[string]bool{}, usedSpecFn: map[string]bool{}, recDefs: map[string]bool{},
	}
	defer func() {
		if r := recover(); r != nil {
			switch e := r.(type) {
			case oosErr:
				err = e
			case specErr:
				err = e
			default:
				// an internal failure of the generator on this function (e.g. a contract clause that no longer
				// type-checks against changed code): the function is not verified - reported like any other
				// function whose obligations cannot be generated, never a crash of the whole check
				err = fmt.Errorf("internal error of the VC generator: %v", r)
			}
		}
	}()
	ex.numberSites(fn)
	st := &State{cells: map[*ssa.Alloc]*Val{}, regs: map[ssa.Value]*Val{}, heap: map[string]*Term{}, loops: map[string]*loopVisit{}, held: map[string]bool{}, locks: map[string]int{}, ghost: map[string]*Val{}, defers: map[int][]deferRec{}}
	if spec != nil && spec.UnderLock != "" {
		// the caller holds the monitor lock for the whole call (obligation at every call site)
		st.held[spec.UnderLock] = true
	}
	alloc0 := ex.allocArr(st)
	st.assume(Not(Select(alloc0, IntLit(0))))
	fr := &Frame{id: 0, fn: fn, spec: spec, subst: ex.env.subst}
	// parameters
	names := ex.paramNames(fn, spec)
	for i, p := range fn.Params {
		v := ex.namedVal(p.Type(), "in "+names[i])
		st.regs[p] = v
		st.assume(ex.typeInv(p.Type(), v, alloc0))
		ex.entryVals[names[i]] = v
		ex.paramTypes[names[i]] = p.Type()
		ex.flatten(p.Type(), v, "", func(l Leaf, t *Term) { ex.inputs = append(ex.inputs, t) })
		// the first elements of integer slices, for replay
		if sl, ok := p.Type().Underlying().(*types.Slice); ok && v.Sl != nil {
			if _, _, isInt := intInfo(sl.Elem()); isInt {
				for k := int64(0); k < 24; k++ {
					lv := ex.env.leaves(sl.Elem())[0]
					t := Select(Select(ex.elemArr(st, sl.Elem(), "", lv.Sort), v.Sl.Arr), ex.iadd(v.Sl.Off, ex.intConst(k)))
					ex.inputs = append(ex.inputs, t)
					ex.inputNames[t.String()] = fmt.Sprintf("elem %s %d", names[i], k)
				}
			}
		}
	}
	// receiver of a method: the scalar and integer-slice fields of the struct it points to, for replay
	if fn.Signature.Recv() != nil && len(fn.Params) > 0 {
		ex.registerRecvInputs(st, fn.Params[0], st.regs[fn.Params[0]])
	}
	for _, fv := range fn.FreeVars {
		v := ex.namedVal(fv.Type(), "free "+fv.Name())
		st.regs[fv] = v
		st.assume(ex.typeInv(fv.Type(), v, alloc0))
		// a captured variable is a cell that exists: the pointer to it is never nil
		if _, isPtr := fv.Type().Underlying().(*types.Pointer); isPtr && v.T != nil {
			st.assume(Neq(v.T, IntLit(0)))
		}
	}
	// ghost universals
	ctx0 := ex.specCtx(st, nil, fr)
	for _, g := range spec.Ghosts {
		t := ctx0.resolveType(g.Type)
		v := ex.namedVal(t, "ghost "+g.Name)
		st.assume(ex.typeInv(t, v, alloc0))
		ex.ghostVals[g.Name] = &SV{V: v, T: t}
	}
	if fn.Name() == "init" && fn.Synthetic != "" && fn.Pkg != nil {
		// a package initialiser runs once: its guard is false on entry
		if g, ok := fn.Pkg.Members["init$guard"].(*ssa.Global); ok {
			st.heap[ex.globalKey(g)+" "] = TFalse
		}
	}
	ex.addSpecAxioms(st, fr)
	ex.entry = st.clone()
	// requires
	ctx := ex.specCtx(st, nil, fr)
	for _, c := range spec.Requires {
		if !c.appliesTo(prop) {
			continue
		}
		st.assume(ctx.EvalBool(c.Expr))
	}
	ex.entry = st.clone()
	// modifies targets
	ex.modTargets = ex.evalModifies(ctx, spec.Modifies)
	// vacuity: the precondition must be satisfiable
	ex.covers = append(ex.covers, &Oblig{Site: ex.fnName() + "/cover:requires", Kind: "cover", Hyps: append([]*Term(nil), st.pc...), Goal: TFalse, Fn: ex.fnName()})
	if len(fn.Blocks) == 0 {
		return ex, fmt.Errorf("function %s has no body", fn)
	}
	ex.runPath(st, fr, fn.Blocks[0], nil)
	return ex, nil
}

func (ex *Exec) paramNames(fn *ssa.Function, spec *FuncSpec) []string {
	var names []string
	i := 0
	if fn.Signature.Recv() != nil {
		n := spec.RecvName
		if n == "" {
			n = fn.Params[0].Name()
		}
		names = append(names, n)
		i = 1
	}
	for k := i; k < len(fn.Params); k++ {
		if k-i < len(spec.ParamNames) {
			names = append(names, spec.ParamNames[k-i])
		} else {
			names = append(names, fn.Params[k].Name())
		}
	}
	return names
}

func (ex *Exec) numberSites(fn *ssa.Function) {
	counts := map[string]int{}
	for _, b := range fn.Blocks {
		for _, in := range b.Instrs {
			k := fmt.Sprintf("%T", in)
			counts[k]++
			ex.siteOrd[in] = counts[k]
		}
	}
}

// runPath runs a path and converts aborts into end-of-path.
func (ex *Exec) runPath(st *State, fr *Frame, b *ssa.BasicBlock, pred *ssa.BasicBlock) {
	defer func() {
		if r := recover(); r != nil {
			if _, ok := r.(pathAbort); ok {
				return
			}
			panic(r)
		}
	}()
	ex.runBlock(st, fr, b, pred)
}

func (ex *Exec) loopKey(fr *Frame, b *ssa.BasicBlock) string {
	return fmt.Sprintf("%d:%d", fr.id, b.Index)
}

func (ex *Exec) specCtx(st *State, old *State, fr *Frame) *SpecCtx {
	n := 0
	c := &SpecCtx{ex: ex, st: st, old: old, names: map[string]*SV{}, nbound: &n, tparms: map[string]types.Type{}}
	nb := ex.nfresh * 1000
	c.nbound = &nb
	if fr != nil && fr.fn != nil {
		fn := fr.fn
		if o := fn.Origin(); o != nil {
			fn = o
		}
		if fn.Pkg != nil {
			c.pkg = fn.Pkg.Pkg
		} else if fn.Object() != nil {
			c.pkg = fn.Object().Pkg()
		}
		addTP := func(l *types.TypeParamList) {
			if l == nil {
				return
			}
			for i := 0; i < l.Len(); i++ {
				c.tparms[l.At(i).Obj().Name()] = l.At(i)
			}
		}
		addTP(fn.Signature.TypeParams())
		addTP(fn.Signature.RecvTypeParams())
	}
	if fr != nil && fr.id == 0 {
		for n, v := range ex.entryVals {
			c.names[n] = &SV{V: v, T: ex.paramTypes[n]}
			c.names[n+"0"] = c.names[n]
		}
		for n, v := range ex.ghostVals {
			c.names[n] = v
		}
		// captured variables of a closure under contract are cells: the name denotes the pointer to the cell
		// (`x.f` for a captured struct, `*x` for a captured scalar; inside old(..) the cell's entry content)
		for _, fv := range fr.fn.FreeVars {
			if rv, ok := st.regs[fv]; ok {
				if _, exists := c.names[fv.Name()]; !exists {
					c.names[fv.Name()] = &SV{V: rv, T: fv.Type()}
				}
			}
		}
		// renamed captured variables: a recorded name that is no longer captured stands for the variable now
		// captured at its recorded position (only when the number of captured variables is unchanged)
		if ex.P.Locals != nil && ex.spec != nil {
			if rec := ex.P.Locals[ex.spec.Key+"#free"]; rec != nil && len(rec) == len(fr.fn.FreeVars) {
				for i, old := range rec {
					fv := fr.fn.FreeVars[i]
					if old == fv.Name() {
						continue
					}
					stillCaptured := false
					for _, o := range fr.fn.FreeVars {
						if o.Name() == old {
							stillCaptured = true
						}
					}
					if stillCaptured {
						continue
					}
					if rv, ok := st.regs[fv]; ok {
						c.names[old] = &SV{V: rv, T: fv.Type()}
						ex.noteOnce("captured variable " + fv.Name() + " stands for " + old + " of the contract (renamed, matched by position)")
					}
				}
			}
		}
	}
	ex.nfresh++
	return c
}

// ---- loops ----

type loopInfo struct {
	headers []*ssa.BasicBlock
	bodies  map[*ssa.BasicBlock]map[*ssa.BasicBlock]bool
	ord     map[*ssa.BasicBlock]int
}

var loopCache = map[*ssa.Function]*loopInfo{}

func getLoops(fn *ssa.Function) *loopInfo {
	if li, ok := loopCache[fn]; ok {
		return li
	}
	hs, bodies := loopHeaders(fn)
	li := &loopInfo{headers: hs, bodies: bodies, ord: map[*ssa.BasicBlock]int{}}
	for i, h := range hs {
		li.ord[h] = i + 1
	}
	loopCache[fn] = li
	return li
}

func (ex *Exec) runBlock(st *State, fr *Frame, b *ssa.BasicBlock, pred *ssa.BasicBlock) {
	ex.checkBudget()
	ex.env.subst = fr.subst
	li := getLoops(fr.fn)
	if n, isHeader := li.ord[b]; isHeader {
		if !ex.loopHeader(st, fr, b, n, li) {
			return
		}
	}
	ex.runInstrs(st, fr, b, 0, pred)
}

// loopHeader handles arrival at a loop header; returns false when the path ends here.
func (ex *Exec) loopHeader(st *State, fr *Frame, b *ssa.BasicBlock, n int, li *loopInfo) bool {
	key := ex.loopKey(fr, b)
	var ls *LoopSpec
	if fr.spec != nil {
		ls = fr.spec.Loops[n]
	}
	fname := ex.fnName()
	if fr.id != 0 {
		fname = strings.TrimPrefix(funcKey(fr.fn), modulePath+"/")
	}
	if cexMode {
		// bounded unrolling without unwinding assertion (counterexample search only)
		vis := st.loops[key]
		if vis == nil {
			vis = &loopVisit{}
		}
		nv := &loopVisit{iters: vis.iters + 1}
		st.loops[key] = nv
		return nv.iters <= cexUnroll
	}
	if ls == nil {
		panic(oos(fmt.Sprintf("loop %d of %s has no invariant", n, fname)))
	}
	vis := st.loops[key]
	if ls.Unroll > 0 {
		if vis == nil {
			vis = &loopVisit{}
		}
		nv := &loopVisit{iters: vis.iters + 1}
		st.loops[key] = nv
		if nv.iters > ls.Unroll+1 {
			// unwinding assertion: this iteration must be unreachable
			ex.check(st, "unwind", fmt.Sprintf("%s/unwind#%d", fname, n), TFalse, fmt.Sprintf("loop %d needs more than %d iterations", n, ls.Unroll), "")
			return false
		}
		return true
	}
	ctx := ex.frameCtx(st, fr)
	if vis == nil {
		// first arrival: establish, havoc, assume
		for i, inv := range ls.Invariants {
			if !inv.appliesTo(ex.prop) {
				continue
			}
			ex.check(st, "inv-entry", fmt.Sprintf("%s/inv-entry#%d.%d%s", fname, n, i+1, labelSuffix(inv)), ctx.EvalBool(inv.Expr), "loop invariant on entry: "+inv.Src, fmt.Sprintf("%s:%d", shortFile(inv.File), inv.Line))
		}
		ex.havocLoop(st, fr, b, li)
		// an arbitrary iteration: earlier iterations may have released locks, so every
		// acquisition from here on sees state changed by other threads
		st.locks["*cut*"] = 1
		ctx = ex.frameCtx(st, fr)
		for _, inv := range ls.Invariants {
			if !inv.appliesTo(ex.prop) {
				continue
			}
			st.assume(ctx.EvalBool(inv.Expr))
		}
		nv := &loopVisit{heapAt: map[string]*Term{}}
		if ls.Decreases != nil {
			m := ctx.eval(ls.Decreases.Expr)
			nv.measure = ctx.term(m, ex.env.IntS())
		}
		st.loops[key] = nv
		return true
	}
	// back edge: preserve
	for i, inv := range ls.Invariants {
		if !inv.appliesTo(ex.prop) {
			continue
		}
		ex.check(st, "inv-step", fmt.Sprintf("%s/inv-step#%d.%d%s", fname, n, i+1, labelSuffix(inv)), ctx.EvalBool(inv.Expr), "loop invariant preserved: "+inv.Src, fmt.Sprintf("%s:%d", shortFile(inv.File), inv.Line))
	}
	if ls.Decreases != nil && vis.measure != nil {
		m := ctx.term(ctx.eval(ls.Decreases.Expr), ex.env.IntS())
		goal := And(ex.sle(ex.intConst(0), vis.measure), ex.slt(m, vis.measure))
		ex.check(st, "decreases", fmt.Sprintf("%s/decreases#%d", fname, n), goal, "loop measure decreases: "+ls.Decreases.Src, "")
	}
	if fr.id == 0 && !ex.spec.NoFrame {
		ex.checkFrame(st, fmt.Sprintf("%s/frame-loop#%d", fname, n))
	}
	return false
}

func labelSuffix(c *Clause) string {
	if c.Label != "" {
		return ":" + c.Label
	}
	return ""
}

func shortFile(f string) string {
	f = strings.TrimPrefix(f, "/repo/")
	f = strings.TrimPrefix(f, "/verif/")
	return f
}

// frameCtx builds the spec context for loop invariants: names are the
// current values of the named locals of the frame's function, x0 the entry
// values of parameters.
func (ex *Exec) frameCtx(st *State, fr *Frame) *SpecCtx {
	var old *State
	if fr.id == 0 {
		old = ex.entry
	} else {
		old = fr.entry
	}
	c := ex.specCtx(st, old, fr)
	// named locals: the first alloc with a given name wins; later ones get name_2 ...
	seen := map[string]int{}
	for _, b := range fr.fn.Blocks {
		for _, in := range b.Instrs {
			al, ok := in.(*ssa.Alloc)
			if !ok || al.Comment == "" {
				continue
			}
			name := al.Comment
			seen[name]++
			if seen[name] > 1 {
				name = fmt.Sprintf("%s_%d", name, seen[name])
			}
			elemT := al.Type().Underlying().(*types.Pointer).Elem()
			if v, ok := st.cells[al]; ok {
				c.names[name] = &SV{V: v, T: elemT}
			} else if rv, ok := st.regs[al]; ok && rv.T != nil {
				// heap-allocated local: load its current content
				loc := ex.ptrLoc(rv, elemT)
				loc.Type = elemT
				c.names[name] = &SV{V: ex.loadLoc(st, loc), T: elemT}
			}
		}
	}
	// renamed locals: a name recorded for this function that no longer exists is bound to the local that now
	// stands at its recorded position (only when the number of locals is unchanged)
	if fr.id == 0 && ex.P.Locals != nil {
		if rec := ex.P.Locals[ex.spec.Key]; rec != nil {
			cur := localNames(fr.fn)
			if len(cur) == len(rec) {
				isCur := map[string]bool{}
				for _, n := range cur {
					isCur[n] = true
				}
				for i, old := range rec {
					if old == cur[i] {
						continue
					}
					// the recorded name is still a local of the function: no renaming of that one; a name that is
					// only bound as a parameter's entry value (a renamed, re-assigned parameter) does not count
					_, isEntry := ex.entryVals[old]
					if _, exists := c.names[old]; isCur[old] || (exists && !isEntry) {
						continue
					}
					if v, ok := c.names[cur[i]]; ok {
						c.names[old] = v
						ex.noteOnce("local " + cur[i] + " stands for " + old + " of the contract (renamed local matched by position)")
					}
				}
			}
		}
	}
	if fr.id == 0 {
		for n, v := range ex.entryVals {
			c.names[n+"0"] = &SV{V: v, T: ex.paramTypes[n]}
			if _, ok := c.names[n]; !ok {
				c.names[n] = &SV{V: v, T: ex.paramTypes[n]}
			}
		}
		for n, v := range ex.ghostVals {
			c.names[n] = v
		}
	} else {
		for i, p := range fr.fn.Params {
			if v, ok := st.regs[p]; ok {
				if _, have := c.names[p.Name()]; !have {
					c.names[p.Name()] = &SV{V: v, T: p.Type()}
				}
				_ = i
			}
		}
	}
	return c
}

// ---- instruction execution ----

func (ex *Exec) val(st *State, v ssa.Value) *Val {
	switch x := v.(type) {
	case *ssa.Const:
		return ex.constVal(x)
	case *ssa.Global:
		return &Val{Loc: &Loc{Kind: LGlobal, Global: x, Type: x.Type().(*types.Pointer).Elem()}}
	case *ssa.Function:
		return &Val{Fn: x}
	case *ssa.Builtin:
		return &Val{}
	}
	r, ok := st.regs[v]
	if !ok {
		panic(oos(fmt.Sprintf("value %s (%T) not available", v.Name(), v)))
	}
	return r
}

func (ex *Exec) runInstrs(st *State, fr *Frame, b *ssa.BasicBlock, start int, pred *ssa.BasicBlock) {
	for i := start; i < len(b.Instrs); i++ {
		in := b.Instrs[i]
		switch x := in.(type) {
		case *ssa.If:
			cond := ex.val(st, x.Cond).T
			ex.branch(st, fr, b, cond)
			return
		case *ssa.Jump:
			ex.runBlock(st, fr, b.Succs[0], b)
			return
		case *ssa.Return:
			var rs []*Val
			for _, r := range x.Results {
				rs = append(rs, ex.val(st, r))
			}
			ex.doReturn(st, fr, rs, x)
			return
		case *ssa.Panic:
			ex.doPanic(st, fr, x)
			return
		case *ssa.Call:
			// calls may fork or inline: continuation style
			ex.execCall(st, fr, &x.Call, x, func(st2 *State, res *Val) {
				if res != nil {
					st2.regs[x] = res
				}
				ex.env.subst = fr.subst
				ex.runInstrs(st2, fr, b, i+1, pred)
			})
			return
		case *ssa.RunDefers:
			ex.runDefers(st, fr, func(st2 *State) {
				ex.env.subst = fr.subst
				ex.runInstrs(st2, fr, b, i+1, pred)
			})
			return
		case *ssa.Select:
			ex.execSelect(st, fr, x, func(st2 *State) {
				ex.env.subst = fr.subst
				ex.runInstrs(st2, fr, b, i+1, pred)
			})
			return
		default:
			if cont := ex.step(st, fr, in, b, pred); cont != nil {
				// forking instruction
				cont(func(st2 *State) {
					ex.env.subst = fr.subst
					ex.runInstrs(st2, fr, b, i+1, pred)
				})
				return
			}
		}
	}
}

func (ex *Exec) branch(st *State, fr *Frame, b *ssa.BasicBlock, cond *Term) {
	if cond.IsTrue() {
		ex.runBlock(st, fr, b.Succs[0], b)
		return
	}
	if cond.IsFalse() {
		ex.runBlock(st, fr, b.Succs[1], b)
		return
	}
	ex.npaths++
	if ex.npaths > ex.maxPaths {
		panic(oos(fmt.Sprintf("more than %d paths", ex.maxPaths)))
	}
	st2 := st.clone()
	st.assume(cond)
	st.pathID += "T"
	ex.runPath(st, fr, b.Succs[0], b)
	st2.assume(Not(cond))
	st2.pathID += "F"
	ex.runPath(st2, fr, b.Succs[1], b)
}

// fork runs the continuation on two states with the given extra assumptions.
func (ex *Exec) fork(st *State, cond *Term, k func(st *State, taken bool)) {
	if cond.IsTrue() {
		k(st, true)
		return
	}
	if cond.IsFalse() {
		k(st, false)
		return
	}
	ex.npaths++
	if ex.npaths > ex.maxPaths {
		panic(oos(fmt.Sprintf("more than %d paths", ex.maxPaths)))
	}
	st2 := st.clone()
	st.assume(cond)
	st.pathID += "t"
	func() {
		defer func() {
			if r := recover(); r != nil {
				if _, ok := r.(pathAbort); ok {
					return
				}
				panic(r)
			}
		}()
		k(st, true)
	}()
	st2.assume(Not(cond))
	st2.pathID += "f"
	func() {
		defer func() {
			if r := recover(); r != nil {
				if _, ok := r.(pathAbort); ok {
					return
				}
				panic(r)
			}
		}()
		k(st2, false)
	}()
}

func (ex *Exec) site(kind string, in ssa.Instruction) string {
	return fmt.Sprintf("%s/%s#%d", ex.fnName(), kind, ex.siteOrd[in])
}

// nilCheck emits the obligation that a pointer is non-nil.
func (ex *Exec) nilCheck(st *State, v *Val, in ssa.Instruction, what string) {
	if v.Loc != nil {
		return
	}
	if v.T == nil {
		return
	}
	ex.check(st, "nil", ex.site("nil", in), Neq(v.T, IntLit(0)), "nil dereference: "+what, ex.pos(in))
	st.assume(Neq(v.T, IntLit(0)))
}

// step executes a non-control instruction. A non-nil result means the
// instruction forks; the caller passes the continuation.
func (ex *Exec) step(st *State, fr *Frame, in ssa.Instruction, b *ssa.BasicBlock, pred *ssa.BasicBlock) func(k func(*State)) {
	ex.checkBudget()
	switch x := in.(type) {
	case *ssa.DebugRef:
		return nil
	case *ssa.Alloc:
		elemT := x.Type().Underlying().(*types.Pointer).Elem()
		if !x.Heap {
			st.cells[x] = ex.zeroVal(elemT)
			st.regs[x] = &Val{Loc: &Loc{Kind: LCell, Cell: x, Type: elemT}}
			return nil
		}
		ref := ex.newRef(st, sanitizeName(x.Comment), ex.env.typeKey(elemT))
		if pt := ex.structPtr(x.Type()); pt != nil {
			st.assume(Eq(ex.dtype(ref), ex.typeTag(pt)))
		}
		ex.initObject(st, ref, elemT)
		st.regs[x] = scalar(ref)
		return nil
	case *ssa.Store:
		addr := ex.val(st, x.Addr)
		elemT := x.Addr.Type().Underlying().(*types.Pointer).Elem()
		ex.nilCheck(st, addr, x, "store")
		loc := ex.ptrLoc(addr, elemT)
		v := ex.val(st, x.Val)
		ex.lockCheck(st, loc, x)
		ex.storeLoc(st, loc, v)
		return nil
	case *ssa.UnOp:
		xv := ex.val(st, x.X)
		switch x.Op {
		case token.MUL:
			elemT := x.X.Type().Underlying().(*types.Pointer).Elem()
			ex.nilCheck(st, xv, x, "load")
			loc := ex.ptrLoc(xv, elemT)
			ex.lockCheck(st, loc, x)
			v := ex.loadLoc(st, loc)
			if loc.Kind != LCell {
				st.assume(ex.typeInv(elemT, v, ex.allocArr(st)))
			}
			st.regs[x] = v
		case token.ARROW:
			return ex.execRecv(st, fr, x, xv)
		default:
			st.regs[x] = ex.unop(st, x, xv)
		}
		return nil
	case *ssa.BinOp:
		st.regs[x] = ex.binop(st, x.Op, ex.val(st, x.X), ex.val(st, x.Y), x.X.Type(), x.Y.Type(), x)
		return nil
	case *ssa.Phi:
		for i, p := range b.Preds {
			if p == pred {
				st.regs[x] = ex.val(st, x.Edges[i])
				return nil
			}
		}
		panic(oos("phi without matching predecessor"))
	case *ssa.Convert:
		st.regs[x] = ex.convert(st, x)
		return nil
	case *ssa.ChangeType:
		st.regs[x] = ex.val(st, x.X)
		return nil
	case *ssa.ChangeInterface:
		st.regs[x] = ex.val(st, x.X)
		return nil
	case *ssa.MakeInterface:
		st.regs[x] = ex.makeInterface(st, x)
		return nil
	case *ssa.Extract:
		t := ex.val(st, x.Tuple)
		if x.Index >= len(t.Fs) {
			panic(oos("extract from non-tuple"))
		}
		st.regs[x] = t.Fs[x.Index]
		return nil
	case *ssa.FieldAddr:
		base := ex.val(st, x.X)
		stT := ex.env.resolve(x.X.Type().Underlying().(*types.Pointer).Elem())
		stru := stT.Underlying().(*types.Struct)
		f := stru.Field(x.Field)
		if isOpaqueNamed(stT) || (base.Loc != nil && base.Loc.Dummy) {
			st.regs[x] = &Val{Loc: &Loc{Kind: LCell, Dummy: true, Type: f.Type()}}
			return nil
		}
		ex.nilCheck(st, base, x, "field "+f.Name())
		var loc Loc
		if base.Loc != nil {
			loc = *base.Loc
			loc.PathS += "." + f.Name()
			loc.PathI = append(append([]int(nil), loc.PathI...), x.Field)
			loc.Type = f.Type()
		} else {
			loc = Loc{Kind: LHeap, Ref: base.T, Base: stT, PathS: "." + f.Name(), PathI: []int{x.Field}, Type: f.Type()}
		}
		st.regs[x] = &Val{Loc: &loc}
		return nil
	case *ssa.Field:
		base := ex.val(st, x.X)
		if x.Field >= len(base.Fs) {
			panic(oos("field of non-struct value"))
		}
		st.regs[x] = base.Fs[x.Field]
		return nil
	case *ssa.IndexAddr:
		st.regs[x] = ex.indexAddr(st, x)
		return nil
	case *ssa.Index:
		st.regs[x] = ex.index(st, x)
		return nil
	case *ssa.Slice:
		st.regs[x] = ex.sliceOp(st, x)
		return nil
	case *ssa.MakeSlice:
		st.regs[x] = ex.makeSlice(st, x)
		return nil
	case *ssa.MakeMap:
		st.regs[x] = ex.makeMap(st, x)
		return nil
	case *ssa.MakeChan:
		r := ex.newRef(st, "chan", "chan")
		key := "chan closed"
		st.heap[key] = Store(ex.heapGet(st, key, ArraySort(SRef, SBool)), r, TFalse)
		st.regs[x] = scalar(r)
		return nil
	case *ssa.MakeClosure:
		fnv := x.Fn.(*ssa.Function)
		v := &Val{Fn: fnv}
		for _, bnd := range x.Bindings {
			v.Bind = append(v.Bind, ex.val(st, bnd))
		}
		st.regs[x] = v
		return nil
	case *ssa.Lookup:
		st.regs[x] = ex.lookup(st, x)
		return nil
	case *ssa.MapUpdate:
		ex.mapUpdate(st, x)
		return nil
	case *ssa.TypeAssert:
		st.regs[x] = ex.typeAssert(st, x)
		return nil
	case *ssa.Range:
		st.regs[x] = ex.rangeInit(st, x)
		return nil
	case *ssa.Next:
		return ex.rangeNext(st, x)
	case *ssa.Defer:
		rec := deferRec{call: &x.Call, pos: x}
		for _, a := range x.Call.Args {
			rec.args = append(rec.args, ex.val(st, a))
		}
		rec.fnv = ex.val(st, x.Call.Value)
		st.defers[fr.id] = append(append([]deferRec(nil), st.defers[fr.id]...), rec)
		return nil
	case *ssa.Go:
		// the spawned function is verified on its own, as another thread: here only its
		// precondition (if it has a contract) is an obligation
		if callee := x.Call.StaticCallee(); callee != nil {
			o := callee
			if og := callee.Origin(); og != nil {
				o = og
			}
			if cs := ex.P.Specs.For(funcKey(o), ex.prop); cs != nil {
				var args []*Val
				for _, a := range x.Call.Args {
					args = append(args, ex.val(st, a))
				}
				ex.preOnly = true
				func() {
					defer func() { ex.preOnly = false }()
					ex.callContract(st, fr, cs, callee.Signature, callee, args, x)
				}()
			}
		}
		return nil
	case *ssa.Send:
		// channel contents are not modelled; the number of sends this invocation performed is (ghost)
		ch := ex.val(st, x.Chan)
		ex.nilCheck(st, ch, x, "send on nil channel")
		ex.chanCount(st, "chan sent", ex.valTerm(ch))
		if len(st.held) > 0 {
			ex.check(st, "lock", ex.site("lock:blocking", x), TFalse, "blocking channel send while holding a lock", ex.pos(x))
		}
		return nil
	}
	panic(oos(fmt.Sprintf("unsupported instruction %T: %s", in, in)))
}

// initObject zero-initialises the leaves of a fresh object.
func (ex *Exec) initObject(st *State, ref *Term, t types.Type) {
	rt := ex.env.resolve(t)
	if at, ok := rt.Underlying().(*types.Array); ok {
		// standalone array object: elements zero
		ex.zeroElems(st, ref, at.Elem())
		return
	}
	zero := ex.zeroVal(t)
	ex.flatten(t, zero, "", func(l Leaf, tm *Term) {
		key := ex.fieldKey(rt, l.Path)
		arr := ex.heapGet(st, key, ArraySort(SRef, l.Sort))
		st.heap[key] = Store(arr, ref, tm)
	})
	ex.initEmbeddedArrays(st, ref, rt, "")
}

func (ex *Exec) initEmbeddedArrays(st *State, ref *Term, t types.Type, path string) {
	stru, ok := ex.env.resolve(t).Underlying().(*types.Struct)
	if !ok || isOpaqueNamed(ex.env.resolve(t)) {
		return
	}
	for i := 0; i < stru.NumFields(); i++ {
		f := stru.Field(i)
		ft := ex.env.resolve(f.Type())
		if at, ok := ft.Underlying().(*types.Array); ok {
			arr := ex.embArr(ref, ex.env.resolve(t), path+"."+f.Name())
			ex.zeroElems(st, arr, at.Elem())
		} else if _, ok := ft.Underlying().(*types.Struct); ok {
			ex.initEmbeddedArrays(st, ref, ft, path+"."+f.Name())
		}
	}
}

func (ex *Exec) zeroElems(st *State, arr *Term, elem types.Type) {
	z := ex.zeroVal(elem)
	ex.flatten(elem, z, "", func(l Leaf, tm *Term) {
		key := ex.elemKey(elem, l.Path)
		s := ArraySort(SRef, ArraySort(ex.env.IntS(), l.Sort))
		h := ex.heapGet(st, key, s)
		var ca *Term
		if tm.IsLit() || tm.IsTrue() || tm.IsFalse() {
			ca = ConstArray(ArraySort(ex.env.IntS(), l.Sort), tm)
		} else {
			// cvc5 accepts only values in (as const ..): use a fresh array with a pointwise axiom
			ca = ex.fresh("zeros", ArraySort(ex.env.IntS(), l.Sort))
			i := Sym(fmt.Sprintf("i!z%d", ex.nfresh), ex.env.IntS())
			st.assume(Forall([]*Term{i}, Eq(Select(ca, i), tm), []*Term{Select(ca, i)}))
		}
		st.heap[key] = Store(h, arr, ca)
	})
}

// embArr is the storage identity of an array embedded in an object.
var embTags = map[string]int64{}

func (ex *Exec) embArr(ref *Term, base types.Type, path string) *Term {
	k := ex.env.typeKey(base) + " " + path
	name := symSafe("emb " + k)
	id, ok := embTags[k]
	if !ok {
		id = int64(len(embTags) + 1)
		embTags[k] = id
	}
	f := ex.env.d.Func(name, SRef, SRef)
	owner := ex.env.d.Func("emb_owner", SRef, SRef)
	tag := ex.env.d.Func("emb_tag", SInt, SRef)
	x := Sym("x!emb", SRef)
	app := App(f.Name, SRef, x)
	// injective, negative (never an allocated object), tagged (distinct from other embeddings)
	ex.addAxiom(Forall([]*Term{x}, And(Eq(App(owner.Name, SRef, app), x), Lt(app, IntLit(0)), Eq(App(tag.Name, SInt, app), IntLit(id))), []*Term{app}))
	return App(f.Name, SRef, ref)
}

func (ex *Exec) arraySlice(v *Val, at *types.Array) *SliceV {
	n := ex.intConst(at.Len())
	z := ex.intConst(0)
	if v.Loc != nil && v.Loc.Kind == LHeap && v.Loc.PathS != "" {
		return &SliceV{Arr: ex.embArr(v.Loc.Ref, v.Loc.Base, v.Loc.PathS), Off: z, Len: n, Cap: n}
	}
	if v.T != nil {
		return &SliceV{Arr: v.T, Off: z, Len: n, Cap: n}
	}
	if v.Loc != nil && v.Loc.Kind == LHeap {
		return &SliceV{Arr: v.Loc.Ref, Off: z, Len: n, Cap: n}
	}
	panic(oos("array value"))
}

func (ex *Exec) indexAddr(st *State, x *ssa.IndexAddr) *Val {
	base := ex.val(st, x.X)
	idx := ex.idxTerm(st, x.Index)
	var sl *SliceV
	var elemT types.Type
	switch tt := ex.env.resolve(x.X.Type()).Underlying().(type) {
	case *types.Slice:
		sl = base.Sl
		elemT = tt.Elem()
	case *types.Pointer:
		at := ex.env.resolve(tt.Elem()).Underlying().(*types.Array)
		ex.nilCheck(st, base, x, "array")
		sl = ex.arraySlice(base, at)
		elemT = at.Elem()
	default:
		panic(oos("IndexAddr on " + x.X.Type().String()))
	}
	if sl == nil {
		panic(oos("IndexAddr: no slice value"))
	}
	goal := And(ex.sle(ex.intConst(0), idx), ex.slt(idx, sl.Len))
	ex.check(st, "bounds", ex.site("bounds:index", x), goal, "index out of range", ex.pos(x))
	st.assume(goal)
	return &Val{Loc: &Loc{Kind: LElem, Arr: sl.Arr, Idx: ex.iadd(sl.Off, idx), Base: ex.env.resolve(elemT), Type: elemT}}
}

// idxTerm converts an index/length operand to the integer sort.
func (ex *Exec) idxTerm(st *State, v ssa.Value) *Term {
	t := ex.val(st, v).T
	is := ex.env.IntS()
	if t.Sort == is {
		return t
	}
	w, signed, _ := intInfo(ex.env.resolve(v.Type()))
	_ = w
	if t.Sort.IsBV() && is.IsBV() {
		return bvResize(t, 64, signed)
	}
	if t.Sort.IsBV() && is == SInt {
		return bvToInt(t, signed)
	}
	panic(oos("index sort"))
}

func (ex *Exec) index(st *State, x *ssa.Index) *Val {
	base := ex.val(st, x.X)
	idx := ex.idxTerm(st, x.Index)
	switch tt := ex.env.resolve(x.X.Type()).Underlying().(type) {
	case *types.Basic: // string
		n := ex.strLen(base.T)
		goal := And(ex.sle(ex.intConst(0), idx), ex.slt(idx, n))
		ex.check(st, "bounds", ex.site("bounds:index", x), goal, "string index out of range", ex.pos(x))
		st.assume(goal)
		f := ex.env.d.Func("str_at", SBV8, ex.strSort(), ex.env.IntS())
		return scalar(ex.env.d.Apply(f.Name, base.T, idx))
	default:
		_ = tt
	}
	panic(oos("Index on " + x.X.Type().String()))
}

func (ex *Exec) sliceOp(st *State, x *ssa.Slice) *Val {
	base := ex.val(st, x.X)
	is := ex.env.IntS()
	_ = is
	var sl *SliceV
	var limit *Term // upper bound for high
	isString := false
	switch tt := ex.env.resolve(x.X.Type()).Underlying().(type) {
	case *types.Slice:
		sl = base.Sl
		limit = sl.Cap
	case *types.Pointer:
		at := ex.env.resolve(tt.Elem()).Underlying().(*types.Array)
		ex.nilCheck(st, base, x, "array")
		sl = ex.arraySlice(base, at)
		limit = sl.Len
	case *types.Basic:
		isString = true
	}
	if isString {
		// s[lo:hi]: a string value with the selected bytes (substr is an uninterpreted function with
		// its length and character axioms instantiated here)
		n := ex.strLen(base.T)
		lo := ex.intConst(0)
		hi := n
		if x.Low != nil {
			lo = ex.idxTerm(st, x.Low)
		}
		if x.High != nil {
			hi = ex.idxTerm(st, x.High)
		}
		goal := And(ex.sle(ex.intConst(0), lo), ex.sle(lo, hi), ex.sle(hi, n))
		ex.check(st, "bounds", ex.site("bounds:slice", x), goal, "string slice bounds out of range", ex.pos(x))
		st.assume(goal)
		sub := ex.env.d.Func("substr", ex.strSort(), ex.strSort(), ex.env.IntS(), ex.env.IntS())
		r := ex.env.d.Apply(sub.Name, base.T, lo, hi)
		st.assume(Eq(ex.strLen(r), ex.isub(hi, lo)))
		at := ex.env.d.Func("str_at", SBV8, ex.strSort(), ex.env.IntS())
		i := Sym(fmt.Sprintf("i!ss%d", ex.nfresh), ex.env.IntS())
		ex.nfresh++
		st.assume(Forall([]*Term{i}, Implies(And(ex.sle(ex.intConst(0), i), ex.slt(i, ex.isub(hi, lo))),
			Eq(ex.env.d.Apply(at.Name, r, i), ex.env.d.Apply(at.Name, base.T, ex.iadd(lo, i)))), []*Term{ex.env.d.Apply(at.Name, r, i)}))
		return scalar(r)
	}
	lo := ex.intConst(0)
	hi := sl.Len
	mx := sl.Cap
	if x.Low != nil {
		lo = ex.idxTerm(st, x.Low)
	}
	if x.High != nil {
		hi = ex.idxTerm(st, x.High)
	}
	if x.Max != nil {
		mx = ex.idxTerm(st, x.Max)
	}
	var goals []*Term
	goals = append(goals, ex.sle(ex.intConst(0), lo), ex.sle(lo, hi))
	if x.Max != nil {
		goals = append(goals, ex.sle(hi, mx), ex.sle(mx, limit))
	} else {
		goals = append(goals, ex.sle(hi, limit))
	}
	goal := And(goals...)
	ex.check(st, "bounds", ex.site("bounds:slice", x), goal, "slice bounds out of range", ex.pos(x))
	st.assume(goal)
	return &Val{Sl: &SliceV{Arr: sl.Arr, Off: ex.iadd(sl.Off, lo), Len: ex.isub(hi, lo), Cap: ex.isub(mx, lo)}}
}

func (ex *Exec) makeSlice(st *State, x *ssa.MakeSlice) *Val {
	elemT := ex.env.resolve(x.Type()).Underlying().(*types.Slice).Elem()
	ln := ex.idxTerm(st, x.Len)
	cp := ex.idxTerm(st, x.Cap)
	z := ex.intConst(0)
	goal := And(ex.sle(z, ln), ex.sle(ln, cp))
	ex.check(st, "bounds", ex.site("bounds:make", x), goal, "makeslice: len out of range", ex.pos(x))
	st.assume(goal)
	// allocation succeeded: the size is allocatable (resource exhaustion is not modelled)
	st.assume(ex.sle(cp, ex.intConst(maxSliceLen)))
	arr := ex.newRef(st, "arr", "[]"+ex.env.typeKey(elemT))
	ex.zeroElems(st, arr, elemT)
	return &Val{Sl: &SliceV{Arr: arr, Off: z, Len: ln, Cap: cp}}
}

func (ex *Exec) convert(st *State, x *ssa.Convert) *Val {
	from := ex.env.resolve(x.X.Type())
	to := ex.env.resolve(x.Type())
	v := ex.val(st, x.X)
	_, _, fi := intInfo(from)
	_, _, ti := intInfo(to)
	if fi && ti {
		return scalar(ex.convertInt(v.T, from, to))
	}
	fb, fok := from.Underlying().(*types.Basic)
	tb, tok := to.Underlying().(*types.Basic)
	if fok && tok && fb.Info()&types.IsString != 0 && tb.Info()&types.IsString != 0 {
		return v
	}
	if fok && tok && (fb.Info()&types.IsFloat != 0 || tb.Info()&types.IsFloat != 0) {
		r := ex.fresh("fconv", ex.env.scalarSort(to))
		return scalar(r)
	}
	if _, ok := from.Underlying().(*types.Pointer); ok {
		return v
	}
	if fok && fb.Kind() == types.UnsafePointer {
		return v
	}
	if tok && tb.Kind() == types.UnsafePointer {
		return v
	}
	// string <-> []byte conversions allocate
	if tok && tb.Info()&types.IsString != 0 {
		if _, ok := from.Underlying().(*types.Slice); ok {
			r := ex.fresh("str", ex.strSort())
			st.assume(Eq(ex.strLen(r), v.Sl.Len))
			return scalar(r)
		}
	}
	if fok && fb.Info()&types.IsString != 0 {
		if sl, ok := to.Underlying().(*types.Slice); ok {
			arr := ex.newRef(st, "arr", "[]"+ex.env.typeKey(sl.Elem()))
			n := ex.strLen(v.T)
			return &Val{Sl: &SliceV{Arr: arr, Off: ex.intConst(0), Len: n, Cap: n}}
		}
	}
	panic(oos(fmt.Sprintf("conversion %s -> %s", from, to)))
}

// ---- return / panic ----

func (ex *Exec) doReturn(st *State, fr *Frame, rs []*Val, in ssa.Instruction) {
	if fr.ret != nil {
		fr.ret(st, rs)
		return
	}
	spec := ex.spec
	fname := ex.fnName()
	// ghost assignments at exit
	if len(spec.GhostExit) > 0 {
		gctx := ex.specCtx(st, ex.entry, fr)
		res0 := fr.fn.Signature.Results()
		for i := 0; i < res0.Len(); i++ {
			sv := &SV{V: rs[i], T: res0.At(i).Type()}
			gctx.names[fmt.Sprintf("r%d", i)] = sv
			if i < len(spec.ResultNames) {
				gctx.names[spec.ResultNames[i]] = sv
			}
		}
		for _, ga := range spec.GhostExit {
			ex.ghostAssign(st, gctx, ga)
		}
	}
	// bind results
	ctx := ex.specCtx(st, ex.entry, fr)
	res := fr.fn.Signature.Results()
	for i := 0; i < res.Len(); i++ {
		name := fmt.Sprintf("r%d", i)
		if i < len(spec.ResultNames) {
			name = spec.ResultNames[i]
		}
		sv := &SV{V: rs[i], T: res.At(i).Type()}
		ctx.names[name] = sv
		ctx.names[fmt.Sprintf("r%d", i)] = sv
		if res.Len() == 1 {
			ctx.names["result"] = sv
		}
	}
	// In a postcondition a parameter name denotes the ARGUMENT (its entry value), exactly as at the call sites where
	// the postcondition is assumed - not what the body may have assigned to the parameter meanwhile.
	if fr.id == 0 {
		for n, v := range ex.entryVals {
			ctx.names[n] = &SV{V: v, T: ex.paramTypes[n]}
		}
	}
	ex.curResults = nil
	if fr.id == 0 {
		for i := 0; i < res.Len(); i++ {
			if i < len(rs) && rs[i] != nil && rs[i].T != nil && rs[i].Sl == nil && len(rs[i].Fs) == 0 {
				ex.curResults = append(ex.curResults, rs[i].T)
			} else {
				ex.curResults = append(ex.curResults, nil)
			}
		}
	}
	ex.covers = append(ex.covers, &Oblig{Site: fmt.Sprintf("%s/cover:return#%d", fname, ex.siteOrd[in]), Kind: "cover", Hyps: append([]*Term(nil), st.pc...), Goal: TFalse, Fn: fname, Path: st.pathID})
	if spec.Panics != nil && spec.Panics.appliesTo(ex.prop) {
		pc := ex.specCtx(ex.entry, nil, fr)
		ex.check(st, "panic-iff", fname+"/panic-iff:returns", Not(pc.EvalBool(spec.Panics.Expr)), "returns normally although the contract demands a panic: "+spec.Panics.Src, ex.pos(in))
	}
	for i, c := range spec.Ensures {
		if !c.appliesTo(ex.prop) {
			continue
		}
		ex.check(st, "post", fmt.Sprintf("%s/post#%d%s", fname, i+1, labelSuffix(c)), ctx.EvalBool(c.Expr), "postcondition: "+c.Src, fmt.Sprintf("%s:%d", shortFile(c.File), c.Line))
	}
	if !spec.NoFrame {
		ex.checkFrame(st, fname+"/frame")
	}
	if spec.UnderLock != "" && fr.id == 0 {
		if !st.held[spec.UnderLock] {
			ex.check(st, "lock", fname+"/lock:kept", TFalse, "returns without the caller's lock "+spec.UnderLock, ex.pos(in))
		}
	} else if len(st.held) > 0 {
		var hs []string
		for h := range st.held {
			hs = append(hs, h)
		}
		sort.Strings(hs)
		ex.check(st, "lock", fname+"/lock:released", TFalse, "returns while holding "+strings.Join(hs, ","), ex.pos(in))
	}
}

func (ex *Exec) doPanic(st *State, fr *Frame, x *ssa.Panic) {
	fname := ex.fnName()
	top := fr
	for top.parent != nil {
		top = top.parent
	}
	spec := ex.spec
	if spec.MayPanic {
		ex.trusted["explicit panics of "+fname+" are allowed by its contract (maypanic)"] = true
		return
	}
	if spec.Panics != nil && spec.Panics.appliesTo(ex.prop) && fr.id == 0 {
		pc := ex.specCtx(ex.entry, nil, fr)
		ex.check(st, "panic-iff", fmt.Sprintf("%s/panic-iff:panics#%d", fname, ex.siteOrd[x]), pc.EvalBool(spec.Panics.Expr), "panics although the contract does not allow it: "+spec.Panics.Src, ex.pos(x))
		return
	}
	ex.check(st, "panic", fmt.Sprintf("%s/panic#%d", fname, ex.siteOrd[x]), TFalse, "explicit panic reachable", ex.pos(x))
}

// ---- frame ----

func (ex *Exec) evalModifies(ctx *SpecCtx, cls []*Clause) []*modTarget {
	var out []*modTarget
	for _, c := range cls {
		if !c.appliesTo(ex.prop) {
			continue
		}
		out = append(out, ex.evalModTarget(ctx, c)...)
	}
	return out
}

// addSpecAxioms adds the user-declared axioms whose types resolve in the
// loaded program (axioms about packages that are not loaded are irrelevant).
func (ex *Exec) addSpecAxioms(st *State, fr *Frame) {
	for _, ax := range ex.P.Specs.Axioms {
		func() {
			defer func() {
				if r := recover(); r != nil {
					if _, ok := r.(specErr); ok {
						return
					}
					if _, ok := r.(oosErr); ok {
						return
					}
					panic(r)
				}
			}()
			sp := ex.P.SPkgs[ax.PkgPath]
			if sp == nil {
				return
			}
			c := ex.specCtx(st, nil, nil)
			c.pkg = sp.Pkg
			var bound []*Term
			names := map[string]*SV{}
			for i, pn := range ax.Params {
				t := c.resolveType(ax.ParamTy[i])
				b := c.newBound(pn, ex.env.scalarSort(t))
				bound = append(bound, b)
				names[pn] = &SV{V: scalar(b), T: t}
			}
			body := c.with(names).EvalBool(ax.Body.Expr)
			if len(bound) > 0 {
				body = Forall(bound, body)
			}
			ex.addAxiom(body)
			ex.trusted["axiom "+shortKey(ax.PkgPath)+"."+ax.Name+": "+ax.Body.Src] = true
		}()
	}
}

// ghostAssign executes  lhs := rhs  on ghost state (ghost fields only).
func (ex *Exec) ghostAssign(st *State, c *SpecCtx, ga *GhostAssign) {
	if id, isId := ga.LHS.(*ast.Ident); isId {
		// a ghost global
		gg := c.findGhostGlobal(id.Name)
		if gg == nil {
			c.fail("ghostexit: %s is not a ghost global", id.Name)
		}
		rhs := c.eval(ga.RHS)
		t := c.ghostGlobalType(gg)
		var v *Val
		if rhs.Const != nil {
			v = scalar(c.term(rhs, ex.env.scalarSort(t)))
		} else {
			v = rhs.V
		}
		ex.flatten(t, v, "", func(l Leaf, tm *Term) {
			st.heap[ghostGlobalKey(gg)+" "+l.Path] = tm
		})
		return
	}
	sel, ok := ga.LHS.(*ast.SelectorExpr)
	if !ok {
		c.fail("ghostexit: left side must be a ghost field x.f or a ghost global (%s)", ga.Src)
	}
	base := c.eval(sel.X)
	bt := ex.env.resolve(base.T)
	gf := ex.ghostField(bt, sel.Sel.Name)
	if gf == nil {
		c.fail("ghostexit: %s is not a ghost field", sel.Sel.Name)
	}
	// evaluate the right side first (in the current state)
	rhs := c.eval(ga.RHS)
	ex.withOwnerArgs(bt, func() {
		gt := ex.substType(c.resolveGhostType(gf))
		gb, field := ex.ghostOwner(gf)
		loc := &Loc{Kind: LHeap, Ref: ex.valTerm(base.V), Base: gb, PathS: "." + field, Type: gt}
		var v *Val
		if rhs.Const != nil {
			v = scalar(c.term(rhs, ex.env.scalarSort(gt)))
		} else {
			v = rhs.V
		}
		ex.storeLoc(st, loc, v)
	})
}

func (ex *Exec) noteOnce(w string) {
	for _, x := range ex.warnings {
		if x == w {
			return
		}
	}
	ex.warnings = append(ex.warnings, w)
}

// registerRecvInputs adds to the replay inputs the fields of a pointer-to-struct receiver that a replay can
// reconstruct: integers, booleans and slices of integers or of a type parameter (instantiated with int in the
// replay).  recvShape records what was registered; nil means "cannot be reconstructed".
func (ex *Exec) registerRecvInputs(st *State, p *ssa.Parameter, v *Val) {
	ex.recvShape = nil
	pt, ok := ex.env.resolve(p.Type()).Underlying().(*types.Pointer)
	if !ok || v == nil || v.T == nil {
		return
	}
	base := ex.env.resolve(pt.Elem())
	n, ok := types.Unalias(base).(*types.Named)
	if !ok || n.Obj().Pkg() == nil || !strings.HasPrefix(n.Obj().Pkg().Path(), modulePath) {
		return
	}
	stru, ok := n.Underlying().(*types.Struct)
	if !ok {
		return
	}
	var shape []recvField
	add := func(t *Term, name string) {
		ex.inputs = append(ex.inputs, t)
		ex.inputNames[t.String()] = name
	}
	for i := 0; i < stru.NumFields(); i++ {
		f := stru.Field(i)
		ft := ex.env.resolve(f.Type())
		switch tt := ft.Underlying().(type) {
		case *types.Basic:
			if tt.Info()&(types.IsInteger|types.IsBoolean) == 0 {
				return
			}
			l := ex.env.leaves(ft)[0]
			add(Select(ex.fieldArr(st, base, "."+f.Name(), l.Sort), v.T), "recv ."+f.Name())
			shape = append(shape, recvField{Name: f.Name(), Kind: "scalar", Type: f.Type()})
		case *types.Slice:
			et := ex.env.resolve(tt.Elem())
			_, _, isInt := intInfo(et)
			_, isTP := et.(*types.TypeParam)
			if !isInt && !isTP {
				return
			}
			is := ex.env.IntS()
			arr := Select(ex.fieldArr(st, base, "."+f.Name()+".arr", SRef), v.T)
			off := Select(ex.fieldArr(st, base, "."+f.Name()+".off", is), v.T)
			add(arr, "recv ."+f.Name()+".arr")
			add(Select(ex.fieldArr(st, base, "."+f.Name()+".len", is), v.T), "recv ."+f.Name()+".len")
			add(Select(ex.fieldArr(st, base, "."+f.Name()+".cap", is), v.T), "recv ."+f.Name()+".cap")
			lv := ex.env.leaves(et)[0]
			for k := int64(0); k < 16; k++ {
				add(Select(Select(ex.elemArr(st, et, "", lv.Sort), arr), ex.iadd(off, ex.intConst(k))), fmt.Sprintf("recvelem .%s %d", f.Name(), k))
			}
			kind := "intslice"
			if isTP {
				kind = "tpslice"
				z := ex.valTerm(ex.zeroVal(et))
				if z != nil {
					add(z, "recvzero ."+f.Name())
				}
			}
			shape = append(shape, recvField{Name: f.Name(), Kind: kind, Type: f.Type()})
		default:
			if isOpaqueNamed(ft) {
				// e.g. an embedded sync.Mutex: its zero value will do
				shape = append(shape, recvField{Name: f.Name(), Kind: "skip", Type: f.Type()})
				continue
			}
			return
		}
	}
	ex.recvShape = shape
	ex.recvType = n
}

type recvField struct {
	Name string
	Kind string // scalar | intslice | tpslice | skip
	Type types.Type
}

// maxPathsDefault: path budget of one symbolic execution (lowered for the bounded stand-in)
var maxPathsDefault = 4000

// genDeadline: wall-clock limit of one symbolic execution (only set for the bounded stand-in)
var genDeadline time.Time

// checkBudget aborts the symbolic execution of the bounded stand-in when its time or memory budget is used up.
func (ex *Exec) checkBudget() {
	if genDeadline.IsZero() {
		return
	}
	budgetTick++
	if budgetTick%16 != 0 {
		return
	}
	if time.Now().After(genDeadline) {
		panic(oos("time budget of the bounded exploration exhausted"))
	}
	if budgetTick%4096 == 0 {
		var ms runtime.MemStats
		runtime.ReadMemStats(&ms)
		if ms.HeapAlloc > 3<<30 {
			panic(oos("time budget of the bounded exploration exhausted (memory)"))
		}
	}
}

var budgetTick int
