package main

type ReplayResult struct {
	Confirmed bool   `json:"confirmed"`
	Summary   string `json:"summary"`
	Test      string `json:"test,omitempty"`
	Output    string `json:"output,omitempty"`
}

func tryReplay(P *Program, fr *FuncResult, s *SiteResult, verifDir string) *ReplayResult {
	return nil
}
