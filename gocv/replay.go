package main

// Replay of solver models against the real code: an in-package Go test is
// generated from the model and injected with `go test -overlay` (nothing is
// written into the repository).  Supported inputs: scalar parameters and
// slices of bytes / integers of plain (non-method) functions; for other
// shapes no input is synthesised.

import (
	"golang.org/x/tools/go/ssa"
	"bytes"
	"encoding/json"
	"fmt"
	"go/types"
	"math/big"
	"os"
	"os/exec"
	"path/filepath"
	"strings"
	"time"
)

type ReplayResult struct {
	Confirmed bool   `json:"confirmed"`
	Summary   string `json:"summary"`
	Test      string `json:"test,omitempty"`
	Output    string `json:"output,omitempty"`
}

func parseModelInt(s string) (*big.Int, bool) {
	s = strings.TrimSpace(s)
	if strings.HasPrefix(s, "#x") {
		v, ok := new(big.Int).SetString(s[2:], 16)
		return v, ok
	}
	if strings.HasPrefix(s, "#b") {
		v, ok := new(big.Int).SetString(s[2:], 2)
		return v, ok
	}
	if strings.HasPrefix(s, "(- ") && strings.HasSuffix(s, ")") {
		v, ok := new(big.Int).SetString(strings.TrimSpace(s[3:len(s)-1]), 10)
		if ok {
			v.Neg(v)
		}
		return v, ok
	}
	if strings.HasPrefix(s, "(_ bv") {
		f := strings.Fields(s[5:])
		v, ok := new(big.Int).SetString(f[0], 10)
		return v, ok
	}
	v, ok := new(big.Int).SetString(s, 10)
	return v, ok
}

// goIntLiteral renders a model value as a Go expression of the given integer type.
func goIntLiteral(v *big.Int, t types.Type) string {
	w, signed, _ := intInfo(t)
	m := new(big.Int).Lsh(big.NewInt(1), uint(w))
	x := new(big.Int).Mod(v, m)
	name := types.TypeString(t, func(p *types.Package) string { return p.Name() })
	if signed {
		half := new(big.Int).Lsh(big.NewInt(1), uint(w-1))
		if x.Cmp(half) >= 0 {
			x.Sub(x, m)
		}
		if x.Sign() < 0 && x.Cmp(new(big.Int).Neg(half)) == 0 {
			// most negative value: -MaxInt-1
			mx := new(big.Int).Sub(half, big.NewInt(1))
			return fmt.Sprintf("%s(-%s - 1)", name, mx.String())
		}
	}
	return fmt.Sprintf("%s(%s)", name, x.String())
}

func tryReplay(P *Program, fr *FuncResult, s *SiteResult, verifDir string) *ReplayResult {
	r := tryReplayModel(P, fr, s, verifDir)
	if r != nil && r.Confirmed {
		return r
	}
	if fr.Ex == nil || s.FailStat != "sat" {
		return r
	}
	// the model comes from a modular proof attempt: callee results are only constrained by
	// their contracts.  Search for an end-to-end input: callees inlined, loops unrolled (bounded search,
	// used only to find a replayable counterexample, never to prove anything).
	if m := searchConcreteModel(P, fr, s); m != nil {
		s2 := *s
		s2.Model = m
		s2.PredictedResults = lastPredicted
		if os.Getenv("GOCV_DEBUG") != "" {
			fmt.Fprintf(os.Stderr, "CEX model: %s\n", modelString(m))
		}
		if r2 := tryReplayModel(P, fr, &s2, verifDir); r2 != nil {
			if os.Getenv("GOCV_DEBUG") != "" {
				fmt.Fprintf(os.Stderr, "CEX replay: %v %s\n%s\n", r2.Confirmed, r2.Summary, r2.Test)
			}
			r2.Summary = "input found by bounded search with callees inlined; " + r2.Summary
			if r2.Confirmed || r == nil {
				s.Model = m
				return r2
			}
		}
	}
	return r
}

var cexSearches = 0

var cexMode = false

// boundedMode (with cexMode): the bounded stand-in of check.go - loops unrolled without unwinding assertion, but
// callees under contract stay modular
var boundedMode = false

// lastPredicted: result values predicted by the model of the last successful counterexample search
var lastPredicted []string

var cexUnroll = 12

func searchConcreteModel(P *Program, fr *FuncResult, s *SiteResult) (model map[string]string) {
	lastPredicted = nil
	defer func() {
		if r := recover(); r != nil {
			if os.Getenv("GOCV_DEBUG") != "" {
				fmt.Fprintf(os.Stderr, "CEX search aborted: %v\n", r)
			}
			model = nil
		}
	}()
	// budget: at most 3 searches per run, 15 s and 1500 paths each (the search is a convenience, not the verdict)
	cexSearches++
	if cexSearches > 3 {
		return nil
	}
	cexMode = true
	savedPaths := maxPathsDefault
	maxPathsDefault = 1500
	genDeadline = time.Now().Add(15 * time.Second)
	defer func() { cexMode = false; maxPathsDefault = savedPaths; genDeadline = time.Time{} }()
	// bit-precise search: everything in bit-vector mode
	spec := *fr.Ex.spec
	spec.Mode = ModeBV
	ex, err := VerifyFunc(P, fr.Ex.fn, &spec, fr.Ex.prop)
	if os.Getenv("GOCV_DEBUG") != "" {
		fmt.Fprintf(os.Stderr, "CEX search: err=%v obligs=%d\n", err, func() int { if ex == nil { return -1 }; return len(ex.obligs) }())
	}
	if err != nil || ex == nil {
		return nil
	}
	n := 0
	for _, o := range ex.obligs {
		if o.Site != s.Site || o.Goal.IsTrue() {
			continue
		}
		n++
		if n > 1500 {
			break
		}
		asserts := append([]*Term{}, ex.axioms...)
		asserts = append(asserts, ex.nlAxioms...)
		asserts = append(asserts, o.Hyps...)
		asserts = append(asserts, Not(o.Goal))
		// prefer small inputs: slices of at most 64 elements
		for _, v := range ex.entryVals {
			if v.Sl != nil {
				asserts = append(asserts, ex.sle(v.Sl.Cap, ex.intConst(64)))
			}
		}
		// ... and receiver slice fields of at most 8 elements
		for _, in := range ex.inputs {
			nm := ex.inputNames[in.String()]
			if strings.HasPrefix(nm, "recv .") && (strings.HasSuffix(nm, ".len") || strings.HasSuffix(nm, ".cap")) {
				asserts = append(asserts, ex.sle(in, ex.intConst(8)))
			}
		}
		gv := ex.inputs
		for _, rt := range o.Results {
			if rt != nil && rt.IntVal == nil && len(rt.Args)+len(rt.Op) > 0 {
				gv = append(append([]*Term{}, gv...), rt)
			}
		}
		r := solveWith(backends[:1], ex.env.d, asserts, gv, 5, false, o.Site+" [cex search]")
		if os.Getenv("GOCV_DEBUG") != "" {
			fmt.Fprintf(os.Stderr, "CEX query %s @%s: %s\n", o.Site, o.Path, r.Status)
		}
		if r.Status == "sat" && len(r.Model) > 0 {
			for _, rt := range o.Results {
				switch {
				case rt == nil:
					lastPredicted = append(lastPredicted, "")
				case rt.IntVal != nil || rt.IsTrue() || rt.String() == "false":
					lastPredicted = append(lastPredicted, rt.String())
				default:
					lastPredicted = append(lastPredicted, r.Model[rt.String()])
				}
			}
			m := map[string]string{}
			for k, v := range r.Model {
				if nn, ok := ex.inputNames[k]; ok {
					m[nn] = v
				} else {
					m[k] = v
				}
			}
			return m
		}
	}
	return nil
}

func tryReplayModel(P *Program, fr *FuncResult, s *SiteResult, verifDir string) *ReplayResult {
	if s.FailStat != "sat" || len(s.Model) == 0 || fr.Ex == nil {
		return nil
	}
	fn := fr.Ex.fn
	isMethod := fn.Signature.Recv() != nil
	if (!isMethod && fn.TypeParams().Len() > 0) || (isMethod && fr.Ex.recvShape == nil) {
		return &ReplayResult{Summary: "no input synthesised (generic function, or a receiver whose heap shape is not reconstructed)"}
	}
	names := fr.Ex.paramNames(fn, fr.Ex.spec)
	var setup []string
	var callArgs []string
	recvExpr := ""
	if isMethod {
		// rebuild the receiver from the model: scalar fields, integer slices; type parameters become int
		// (abstract element values are numbered, the zero value is 0)
		rt := fr.Ex.recvType
		tname := rt.Obj().Name()
		if tp := rt.TypeParams(); tp != nil && tp.Len() > 0 {
			var args []string
			for i := 0; i < tp.Len(); i++ {
				args = append(args, "int")
			}
			tname += "[" + strings.Join(args, ", ") + "]"
		}
		setup = append(setup, fmt.Sprintf("recv := new(%s)", tname))
		for _, f := range fr.Ex.recvShape {
			switch f.Kind {
			case "scalar":
				raw := strings.TrimSpace(s.Model["recv ."+f.Name])
				if b, ok := f.Type.Underlying().(*types.Basic); ok && b.Info()&types.IsBoolean != 0 {
					setup = append(setup, fmt.Sprintf("recv.%s = %v", f.Name, raw == "true"))
					break
				}
				mv, ok := parseModelInt(raw)
				if !ok {
					return &ReplayResult{Summary: "no input synthesised (model lacks receiver field " + f.Name + ")"}
				}
				setup = append(setup, fmt.Sprintf("recv.%s = %s", f.Name, goIntLiteral(mv, f.Type)))
			case "intslice", "tpslice":
				arr, ok0 := parseModelInt(s.Model["recv ."+f.Name+".arr"])
				ln, ok1 := parseModelInt(s.Model["recv ."+f.Name+".len"])
				cp, ok2 := parseModelInt(s.Model["recv ."+f.Name+".cap"])
				if !ok0 || !ok1 || !ok2 {
					return &ReplayResult{Summary: "no input synthesised (model lacks the header of receiver field " + f.Name + ")"}
				}
				if arr.Sign() == 0 {
					break // nil slice
				}
				if ln.Cmp(big.NewInt(16)) > 0 {
					return &ReplayResult{Summary: fmt.Sprintf("not replayed: the model needs receiver field %s of length %s", f.Name, ln)}
				}
				if cp.Cmp(big.NewInt(64)) > 0 || cp.Cmp(ln) < 0 {
					cp = new(big.Int).Set(ln)
				}
				elemT := "int"
				if f.Kind == "intslice" {
					elemT = types.TypeString(f.Type.Underlying().(*types.Slice).Elem(), func(p *types.Package) string { return "" })
				}
				setup = append(setup, fmt.Sprintf("recv.%s = make([]%s, %d, %d)", f.Name, elemT, ln.Int64(), cp.Int64()))
				zero := strings.TrimSpace(s.Model["recvzero ."+f.Name])
				numbering := map[string]int{}
				for k := int64(0); k < ln.Int64(); k++ {
					raw := strings.TrimSpace(s.Model[fmt.Sprintf("recvelem .%s %d", f.Name, k)])
					if f.Kind == "intslice" {
						ev, ok := parseModelInt(raw)
						if !ok {
							ev = big.NewInt(0)
						}
						setup = append(setup, fmt.Sprintf("recv.%s[%d] = %s", f.Name, k, goIntLiteral(ev, f.Type.Underlying().(*types.Slice).Elem())))
						continue
					}
					if raw == "" || raw == zero {
						continue
					}
					if _, ok := numbering[raw]; !ok {
						numbering[raw] = len(numbering) + 1
					}
					setup = append(setup, fmt.Sprintf("recv.%s[%d] = %d", f.Name, k, numbering[raw]))
				}
			}
		}
		recvExpr = "recv."
	}
	for i, p := range fn.Params {
		if isMethod && i == 0 {
			continue
		}
		name := names[i]
		v := fmt.Sprintf("a%d", i)
		t := p.Type()
		switch tt := t.Underlying().(type) {
		case *types.Basic:
			switch {
			case tt.Info()&types.IsInteger != 0:
				mv, ok := parseModelInt(s.Model[symSafe("in "+name)])
				if !ok {
					return &ReplayResult{Summary: "no input synthesised (model lacks a value for " + name + ")"}
				}
				setup = append(setup, fmt.Sprintf("%s := %s", v, goIntLiteral(mv, t)))
			case tt.Info()&types.IsBoolean != 0:
				setup = append(setup, fmt.Sprintf("%s := %v", v, strings.TrimSpace(s.Model[symSafe("in "+name)]) == "true"))
			default:
				return &ReplayResult{Summary: "no input synthesised (parameter " + name + " of type " + t.String() + ")"}
			}
		case *types.Slice:
			if _, _, ok := intInfo(tt.Elem()); !ok {
				return &ReplayResult{Summary: "no input synthesised (slice of " + tt.Elem().String() + ")"}
			}
			ln, ok1 := parseModelInt(s.Model[symSafe("in "+name+".len")])
			cp, ok2 := parseModelInt(s.Model[symSafe("in "+name+".cap")])
			arr, ok3 := parseModelInt(s.Model[symSafe("in "+name+".arr")])
			if !ok1 || !ok2 || !ok3 {
				return &ReplayResult{Summary: "no input synthesised (model lacks the header of " + name + ")"}
			}
			if arr.Sign() == 0 {
				setup = append(setup, fmt.Sprintf("var %s %s", v, types.TypeString(t, nil)))
				break
			}
			if ln.Cmp(big.NewInt(4096)) > 0 {
				return &ReplayResult{Summary: fmt.Sprintf("not replayed: the model needs a slice of length %s", ln)}
			}
			if cp.Cmp(big.NewInt(8192)) > 0 {
				cp = new(big.Int).Set(ln)
			}
			var elems []string
			for k := int64(0); k < ln.Int64() && k < 64; k++ {
				key := fmt.Sprintf("elem %s %d", name, k)
				ev, ok := parseModelInt(s.Model[key])
				if !ok {
					ev = big.NewInt(0)
				}
				elems = append(elems, goIntLiteral(ev, tt.Elem()))
			}
			ts := types.TypeString(t, nil)
			setup = append(setup, fmt.Sprintf("%s := make(%s, %d, %d)", v, ts, ln.Int64(), cp.Int64()))
			for k, e := range elems {
				setup = append(setup, fmt.Sprintf("%s[%d] = %s", v, k, e))
			}
		default:
			return &ReplayResult{Summary: "no input synthesised (parameter " + name + " of type " + t.String() + ")"}
		}
		callArgs = append(callArgs, v)
	}
	var tpkg *types.Package
	if fn.Pkg != nil {
		tpkg = fn.Pkg.Pkg
	} else if fn.Object() != nil {
		tpkg = fn.Object().Pkg()
	}
	if tpkg == nil {
		return &ReplayResult{Summary: "no input synthesised (function without package)"}
	}
	pkgName := tpkg.Name()
	nres := fn.Signature.Results().Len()
	var lhs []string
	for i := 0; i < nres; i++ {
		lhs = append(lhs, fmt.Sprintf("r%d", i))
	}
	call := fmt.Sprintf("%s%s(%s)", recvExpr, fn.Name(), strings.Join(callArgs, ", "))
	var body strings.Builder
	fmt.Fprintf(&body, "package %s\n\nimport (\n\t\"fmt\"\n\t\"testing\"\n)\n\n", pkgName)
	fmt.Fprintf(&body, "// generated by gocv from the model of obligation %s\nfunc TestGocvReplay(t *testing.T) {\n", s.Site)
	body.WriteString("\tdefer func() {\n\t\tif r := recover(); r != nil {\n\t\t\tfmt.Printf(\"GOCV-REPLAY PANIC: %v\\n\", r)\n\t\t}\n\t}()\n")
	for _, l := range setup {
		body.WriteString("\t" + l + "\n")
	}
	if nres > 0 {
		fmt.Fprintf(&body, "\t%s := %s\n", strings.Join(lhs, ", "), call)
		fmt.Fprintf(&body, "\tfmt.Printf(\"GOCV-REPLAY RETURNED: %s\\n\", %s)\n", strings.Repeat("%v ", nres), strings.Join(lhs, ", "))
		// machine-readable form for the comparison with the values the counterexample predicts
		var cmpArgs []string
		for i := 0; i < nres; i++ {
			rt := fn.Signature.Results().At(i).Type()
			if _, isTP := rt.(*types.TypeParam); isTP {
				cmpArgs = append(cmpArgs, "\"?\"") // instantiated with int: abstract values are not compared
				continue
			}
			switch tt := rt.Underlying().(type) {
			case *types.Basic:
				if tt.Info()&(types.IsInteger|types.IsBoolean) != 0 {
					cmpArgs = append(cmpArgs, fmt.Sprintf("fmt.Sprint(r%d)", i))
					continue
				}
				cmpArgs = append(cmpArgs, "\"?\"")
			case *types.Interface:
				cmpArgs = append(cmpArgs, fmt.Sprintf("func() string { if r%d == nil { return \"nil\" }; return \"nonnil\" }()", i))
			default:
				cmpArgs = append(cmpArgs, "\"?\"")
			}
		}
		fmt.Fprintf(&body, "\tfmt.Println(\"GOCV-REPLAY VALUES:\", %s)\n", strings.Join(cmpArgs, ", "))
	} else {
		fmt.Fprintf(&body, "\t%s\n\tfmt.Println(\"GOCV-REPLAY RETURNED\")\n", call)
	}
	body.WriteString("}\n")
	// run with an overlay
	dir, err := os.MkdirTemp(filepath.Join(verifDir, ".work"), "replay-")
	if err != nil {
		return &ReplayResult{Summary: "replay not run: " + err.Error()}
	}
	defer os.RemoveAll(dir)
	testFile := filepath.Join(dir, "zz_gocv_replay_test.go")
	os.WriteFile(testFile, []byte(body.String()), 0o644)
	pkgDir := filepath.Join(P.Repo, strings.TrimPrefix(strings.TrimPrefix(tpkg.Path(), modulePath), "/"))
	ov := map[string]map[string]string{"Replace": {filepath.Join(pkgDir, "zz_gocv_replay_test.go"): testFile}}
	ovb, _ := json.Marshal(ov)
	ovFile := filepath.Join(dir, "overlay.json")
	os.WriteFile(ovFile, ovb, 0o644)
	cmd := exec.Command("go", "test", "-overlay", ovFile, "-vet=off", "-count=1", "-timeout", "60s", "-run", "^TestGocvReplay$", "-v", ".")
	cmd.Dir = pkgDir
	env := []string{}
	for _, e := range os.Environ() {
		if !strings.HasPrefix(e, "GOFLAGS=") {
			env = append(env, e)
		}
	}
	cmd.Env = append(env, "GOFLAGS=", "GOPROXY=off", "GOSUMDB=off", "GOTOOLCHAIN=local")
	var out bytes.Buffer
	cmd.Stdout = &out
	cmd.Stderr = &out
	done := make(chan error, 1)
	go func() { done <- cmd.Run() }()
	select {
	case <-done:
	case <-time.After(120 * time.Second):
		if cmd.Process != nil {
			cmd.Process.Kill()
		}
	}
	res := &ReplayResult{Test: body.String(), Output: truncate(out.String(), 3000)}
	var line, values string
	for _, ln := range strings.Split(out.String(), "\n") {
		if strings.HasPrefix(ln, "GOCV-REPLAY VALUES:") {
			values = strings.TrimSpace(strings.TrimPrefix(ln, "GOCV-REPLAY VALUES:"))
			continue
		}
		if strings.HasPrefix(ln, "GOCV-REPLAY") {
			line = ln
		}
	}
	expectPanic := s.Kind == "bounds" || s.Kind == "nil" || s.Kind == "div" || s.Kind == "panic" || s.Kind == "shift"
	switch {
	case strings.HasPrefix(line, "GOCV-REPLAY PANIC"):
		res.Confirmed = expectPanic || s.Kind == "post" || s.Kind == "panic-iff"
		res.Summary = "real code on the model input: " + strings.TrimPrefix(line, "GOCV-REPLAY ")
		if res.Confirmed {
			res.Summary += "  CONFIRMED"
		}
	case strings.HasPrefix(line, "GOCV-REPLAY RETURNED"):
		res.Summary = "real code on the model input: " + strings.TrimPrefix(line, "GOCV-REPLAY ")
		// only for functions without side effects (no modifies clause): then the post-state is the
		// pre-state of the model and the clause depends on the inputs and results alone
		if s.Kind == "post" && fr.Ex.spec != nil && len(fr.Ex.spec.Modifies) == 0 && matchesPrediction(values, s.PredictedResults, fn) {
			// the real code returns exactly what the counterexample predicts, and for these inputs and
			// results the solver has shown the clause false
			res.Confirmed = true
			res.Summary += "  = the values of the counterexample, for which the clause is false  CONFIRMED"
		} else {
			res.Summary += " (the failed clause is not evaluated by the replay: see the obligation)"
		}
	default:
		res.Summary = "replay did not run to completion"
	}
	return res
}

// matchesPrediction compares the results the real code returned (machine-readable form) with the
// values the counterexample predicts; every scalar result must be predicted and equal.
func matchesPrediction(values string, predicted []string, fn *ssa.Function) bool {
	got := strings.Fields(values)
	if len(got) == 0 || len(got) != len(predicted) {
		return false
	}
	for i, g := range got {
		p := strings.TrimSpace(predicted[i])
		if g == "?" || p == "" {
			return false
		}
		rt := fn.Signature.Results().At(i).Type()
		switch tt := rt.Underlying().(type) {
		case *types.Interface:
			pv, ok := parseModelInt(p)
			if !ok || (pv.Sign() == 0) != (g == "nil") {
				return false
			}
		case *types.Basic:
			if tt.Info()&types.IsBoolean != 0 {
				if p != g {
					return false
				}
				continue
			}
			pv, ok := parseModelInt(p)
			if !ok {
				return false
			}
			gv, ok2 := new(big.Int).SetString(g, 10)
			if !ok2 {
				return false
			}
			// unsigned values are printed by Go as non-negative; bit-vector models likewise
			if w, signed, ok := intInfo(rt); ok && signed && pv.Sign() >= 0 && pv.BitLen() == w {
				pv = new(big.Int).Sub(pv, new(big.Int).Lsh(big.NewInt(1), uint(w)))
			}
			if pv.Cmp(gv) != 0 {
				return false
			}
		default:
			return false
		}
	}
	return true
}
