package main

import (
	"math/big"
	"runtime"
	"sync/atomic"
	"golang.org/x/tools/go/ssa"
	"go/types"
	"strconv"
	"encoding/json"
	"fmt"
	"os"
	"path/filepath"
	"sort"
	"strings"
	"sync"
	"time"
)

type SiteResult struct {
	Site      string   `json:"obligation"`
	Kind      string   `json:"kind"`
	Fn        string   `json:"function"`
	Status    string   `json:"status"` // discharged | failed | known-finding
	Paths     int      `json:"path_instances"`
	Trivial   int      `json:"trivial_instances"`
	Backends  []string `json:"backends,omitempty"`
	TimeS     float64  `json:"solver_time_s"`
	Descr     string   `json:"descr,omitempty"`
	Pos       string   `json:"pos,omitempty"`
	FailPath  string   `json:"fail_path,omitempty"`
	FailStat  string   `json:"fail_status,omitempty"`
	Model     map[string]string `json:"model,omitempty"`
	// post obligations: values the counterexample predicts for the scalar results ("" = not predicted)
	PredictedResults []string `json:"predicted_results,omitempty"`
	SolverOut string   `json:"solver_output,omitempty"`
	Replay    *ReplayResult `json:"replay,omitempty"`
}

type FuncResult struct {
	Key      string
	Err      string
	// Bounded != "": the deductive proof of this function was not applicable to the code as it stands (its loop
	// invariants do not fit a rewritten loop, a helper with a loop has no contract ...); the function was instead
	// explored exhaustively up to boundedUnroll iterations per loop, callees executed in place.  Never counted as proved.
	Bounded string
	Sites    []*SiteResult
	Covers   int
	CoverBad []string
	Ex       *Exec
}

var solveSlots = make(chan struct{}, 12)

// thorough tier: obligations that took more than 0.5 s are re-run with another solver seed
var seedProbes, seedUnstable int32

type CheckOpts struct {
	Prop     string
	Tier     string
	TimeoutS int
	All      bool // run all back ends to completion (cross-check)
	Verbose  bool
	OnlyFn   string
	// Fast: the bounded stand-in - short per-obligation limit, no conjunct-wise retry, stop at the first
	// obligation that is not discharged, overall deadline
	Fast     bool
	Deadline time.Time
}

// funcsForProp returns contract keys (sorted) whose props include prop.
func funcsForProp(sp *Specs, prop string) []string {
	var out []string
	for k, fs := range sp.Funcs {
		if fs.Assumed || fs.Inline {
			continue
		}
		if fs.Variant == "" && sp.Funcs[k+"@"+prop] != nil {
			continue // a variant for this property replaces the base contract
		}
		for _, p := range fs.Props {
			if p == prop {
				out = append(out, k)
			}
		}
	}
	sort.Strings(out)
	return out
}

func pkgPatternsForProp(sp *Specs, prop string) []string {
	set := map[string]bool{}
	for _, k := range funcsForProp(sp, prop) {
		set[sp.Funcs[k].PkgPath] = true
	}
	var out []string
	for p := range set {
		out = append(out, p)
	}
	sort.Strings(out)
	return out
}

// verifyFunction generates and discharges the obligations of one function.
func verifyFunction(P *Program, key string, opts CheckOpts) *FuncResult {
	fr := generateFunction(P, key, opts)
	solveFunction(fr, opts)
	return fr
}

// generateFunction runs the symbolic execution (single-threaded).
func generateFunction(P *Program, key string, opts CheckOpts) *FuncResult {
	fr := &FuncResult{Key: key}
	spec := P.Specs.Funcs[key]
	fn := P.Funcs[spec.Key]
	if fn == nil {
		fr.Err = "contract for a function that does not exist: " + key
		return fr
	}
	ex, err := VerifyFunc(P, fn, spec, opts.Prop)
	fr.Ex = ex
	if err != nil {
		fr.Err = err.Error()
		return fr
	}
	return fr
}

const boundedUnroll = 5

// boundedFallback re-examines a function whose contract-based proof could not be set up or failed only at
// loop-invariant sites: all paths with at most boundedUnroll iterations of every loop, module callees executed in
// place, every obligation (postconditions, panics, frame, preconditions of library contracts) discharged by the
// solvers.  Returns the bounded result if every obligation is discharged, nil otherwise (the alarm then stands).
func boundedFallback(P *Program, fr *FuncResult, opts CheckOpts, reason string) *FuncResult {
	spec := P.Specs.Funcs[fr.Key]
	if spec == nil || spec.Lemma {
		return nil
	}
	fn := P.Funcs[spec.Key]
	if fn == nil {
		return nil
	}
	saved := cexUnroll
	var ex *Exec
	var err error
	if os.Getenv("GOCV_DEBUG") != "" {
		fmt.Fprintf(os.Stderr, "BOUNDED-START %s (%s)\n", fr.Key, reason)
	}
	k := boundedUnroll
	t0 := time.Now()
	for ; k >= 2; k-- {
		if time.Since(t0) > 20*time.Second {
			return nil
		}
		cexMode, boundedMode, cexUnroll, maxPathsDefault = true, true, k, 1200
		genDeadline = time.Now().Add(8 * time.Second)
		ex, err = VerifyFunc(P, fn, spec, opts.Prop)
		genDeadline = time.Time{}
		cexMode, boundedMode, cexUnroll, maxPathsDefault = false, false, saved, 4000
		if os.Getenv("GOCV_DEBUG") != "" {
			no := -1
			if ex != nil {
				no = len(ex.obligs)
			}
			fmt.Fprintf(os.Stderr, "BOUNDED-GEN %s k=%d err=%v obligs=%d t=%.1fs\n", fr.Key, k, err, no, time.Since(t0).Seconds())
		}
		if err == nil && ex != nil && len(ex.obligs) > 0 && len(ex.obligs) <= 3000 {
			break
		}
		if err != nil && !strings.Contains(err.Error(), "paths") && !strings.Contains(err.Error(), "time budget") {
			break
		}
	}
	if err != nil || ex == nil || len(ex.obligs) == 0 || len(ex.obligs) > 3000 {
		if os.Getenv("GOCV_DEBUG") != "" {
			fmt.Fprintf(os.Stderr, "BOUNDED-FAIL %s: generation: %v\n", fr.Key, err)
		}
		return nil
	}
	fr2 := &FuncResult{Key: fr.Key, Ex: ex}
	fopts := opts
	fopts.Fast, fopts.TimeoutS, fopts.All = true, 5, false
	fopts.Deadline = time.Now().Add(45 * time.Second)
	solveFunction(fr2, fopts)
	if len(fr2.CoverBad) > 0 {
		return nil
	}
	// the bound must not cut off a whole return site: every `return` of the function has to be reached by
	// some explored path (otherwise what lies behind a long loop was simply not looked at)
	nret := 0
	for _, b := range fn.Blocks {
		if b == fn.Recover {
			continue // the landing block of recovered panics: never entered by this executor
		}
		for _, in := range b.Instrs {
			if _, ok := in.(*ssa.Return); ok {
				nret++
			}
		}
	}
	reached := map[string]bool{}
	for _, c := range ex.covers {
		if strings.Contains(c.Site, "/cover:return#") {
			reached[c.Site] = true
		}
	}
	if len(reached) < nret {
		if os.Getenv("GOCV_DEBUG") != "" {
			fmt.Fprintf(os.Stderr, "BOUNDED-FAIL %s: only %d of %d return sites are reached within the bound\n", fr.Key, len(reached), nret)
		}
		return nil
	}
	for _, s := range fr2.Sites {
		if s.Status != "discharged" {
			if os.Getenv("GOCV_DEBUG") != "" {
				fmt.Fprintf(os.Stderr, "BOUNDED-FAIL %s: %s %s (%s)\n", fr.Key, s.Site, s.FailStat, s.Descr)
			}
			return nil
		}
	}
	fr2.Bounded = fmt.Sprintf("%s: %s; explored instead: every path with at most %d iterations per loop, callees without contract executed in place (%d obligations discharged) - bounded, not a proof", shortKey(spec.Key), reason, k, len(fr2.Sites))
	return fr2
}

// loopOnlyFailure: did the function fail, and only at sites that speak about loop invariants?
func loopOnlyFailure(fr *FuncResult) bool {
	if fr.Err != "" || fr.Ex == nil || len(fr.CoverBad) > 0 {
		return false
	}
	failed := 0
	for _, s := range fr.Sites {
		if s.Status == "discharged" {
			continue
		}
		failed++
		switch s.Kind {
		case "inv-entry", "inv-step", "decreases":
		default:
			if !(s.Kind == "frame" && strings.Contains(s.Site, "/frame-loop#")) {
				return false
			}
		}
	}
	return failed > 0
}

// solveFunction discharges the generated obligations (parallel solver calls).
func solveFunction(fr *FuncResult, opts CheckOpts) {
	if fr.Err != "" || fr.Ex == nil {
		return
	}
	ex := fr.Ex
	spec := ex.spec
	timeout := opts.TimeoutS
	if spec.TimeoutS > 0 && opts.Tier != "thorough" {
		timeout = spec.TimeoutS
	}
	// group by site
	bySite := map[string][]*Oblig{}
	var order []string
	for _, o := range ex.obligs {
		if _, ok := bySite[o.Site]; !ok {
			order = append(order, o.Site)
		}
		bySite[o.Site] = append(bySite[o.Site], o)
	}
	var wg sync.WaitGroup
	sem := solveSlots
	var fastFailed int32
	for _, o := range ex.obligs {
		if o.Goal.IsTrue() {
			o.Res = SolverResult{Status: "unsat", Backend: "trivial"}
			continue
		}
		wg.Add(1)
		go func(o *Oblig) {
			defer wg.Done()
			sem <- struct{}{}
			defer func() { <-sem }()
			defer func() {
				if r := recover(); r != nil {
					o.Res = SolverResult{Status: "error", Backend: "internal", Output: fmt.Sprint("internal error while discharging the obligation: ", r)}
				}
			}()
			if opts.Fast && (atomic.LoadInt32(&fastFailed) != 0 || time.Now().After(opts.Deadline)) {
				o.Res = SolverResult{Status: "unknown", Backend: "skipped"}
				atomic.StoreInt32(&fastFailed, 1)
				return
			}
			if opts.Fast {
				defer func() {
					if o.Res.Status != "unsat" {
						atomic.StoreInt32(&fastFailed, 1)
					}
				}()
			}
			asserts := append([]*Term{}, ex.axioms...)
			asserts = append(asserts, o.Hyps...)
			asserts = append(asserts, Not(o.Goal))
			if len(ex.nlAxioms) > 0 {
				// first without the non-linear lemma axioms (products are then merely uninterpreted)
				o.Res = solveWith(backends[:1], ex.env.d, asserts, ex.inputs, 3, false, o.Site+" @"+o.Path+" [no-nl]")
				if o.Res.Status == "sat" {
					o.Res.Status = "unknown" // a model of the weaker query proves nothing
				}
			}
			if o.Res.Status != "unsat" {
				asserts = append(append([]*Term{}, ex.nlAxioms...), asserts...)
				gv := ex.inputs
				for _, rt := range o.Results {
					if rt != nil && rt.IntVal == nil && len(rt.Args)+len(rt.Op) > 0 {
						gv = append(append([]*Term{}, gv...), rt)
					}
				}
				o.Res = Solve(ex.env.d, asserts, gv, timeout, opts.All, o.Site+" @"+o.Path)
			}
			if o.Res.Status == "sat" && os.Getenv("GOCV_DEBUG") != "" {
				for _, cj := range flattenAnd(o.Goal) {
					as := append(append([]*Term{}, ex.nlAxioms...), ex.axioms...)
					as = append(as, o.Hyps...)
					as = append(as, Not(cj))
					r := Solve(ex.env.d, as, nil, 5, false, o.Site+" [dbg]")
					if r.Status != "unsat" {
						fmt.Fprintf(os.Stderr, "SAT-CONJUNCT %s @%s: %s : %s\n", o.Site, o.Path, r.Status, truncate(cj.String(), 500))
					}
				}
			}
			if opts.All && o.Res.Status == "unsat" && o.Res.Time > 0.5 {
				// stability probe (thorough tier): the same query with another random seed
				r := solveWith([]backend{z3Reseeded}, ex.env.d, asserts, nil, 60, false, o.Site+" @"+o.Path+" [reseeded]")
				if r.Status != "unsat" {
					atomic.AddInt32(&seedUnstable, 1)
				}
				atomic.AddInt32(&seedProbes, 1)
			}
			if !opts.Fast && o.Res.Status != "unsat" && o.Res.Status != "sat" && len(flattenAnd(o.Goal)) > 1 {
				// conjunct-wise: every conjunct of the goal on its own
				allOK := true
				total := o.Res.Time
				bk := map[string]bool{}
				for _, cj := range flattenAnd(o.Goal) {
					as := append([]*Term{}, ex.axioms...)
					as = append(as, o.Hyps...)
					as = append(as, Not(cj))
					r := SolverResult{Status: "unknown"}
					if len(ex.nlAxioms) > 0 {
						r = solveWith(backends[:1], ex.env.d, as, nil, 3, false, o.Site+" @"+o.Path+" [conjunct no-nl]")
					}
					if r.Status != "unsat" {
						as = append(append([]*Term{}, ex.nlAxioms...), as...)
						r = Solve(ex.env.d, as, nil, timeout, false, o.Site+" @"+o.Path+" [conjunct]")
					}
					total += r.Time
					if r.Status != "unsat" {
						allOK = false
						if os.Getenv("GOCV_DEBUG") != "" {
							fmt.Fprintf(os.Stderr, "CONJUNCT-FAIL %s @%s: %s : %s\n", o.Site, o.Path, r.Status, truncate(cj.String(), 700))
						}
						break
					}
					bk[r.Backend] = true
				}
				if allOK {
					var names []string
					for b := range bk {
						names = append(names, b)
					}
					sort.Strings(names)
					o.Res = SolverResult{Status: "unsat", Backend: strings.Join(names, "+") + "/split", Time: total}
				}
			}
		}(o)
	}
	// covers: the requires clause, and per return site path instances until one is found reachable
	// (sites are examined in parallel, the instances of one site in order, at most 24 of them)
	coverRes := make([]SolverResult, len(ex.covers))
	coverBySite := map[string][]int{}
	var coverOrder []string
	for i, c := range ex.covers {
		coverRes[i] = SolverResult{Status: "skipped"}
		if _, ok := coverBySite[c.Site]; !ok {
			coverOrder = append(coverOrder, c.Site)
		}
		coverBySite[c.Site] = append(coverBySite[c.Site], i)
	}
	for _, site := range coverOrder {
		idxs := coverBySite[site]
		wg.Add(1)
		go func(idxs []int) {
			defer wg.Done()
			sem <- struct{}{}
			defer func() { <-sem }()
			for n, i := range idxs {
				if n >= 24 {
					break
				}
				c := ex.covers[i]
				asserts := append([]*Term{}, ex.axioms...)
				asserts = append(asserts, c.Hyps...)
				coverRes[i] = solveWith(backends[:1], ex.env.d, asserts, nil, 2, false, c.Site)
				if coverRes[i].Status != "sat" && coverRes[i].Status != "unsat" {
					coverRes[i] = solveWith(backends[2:3], ex.env.d, asserts, nil, 2, false, c.Site)
				}
				if coverRes[i].Status != "unsat" {
					break // reachable (or undecided): enough for this site
				}
			}
		}(idxs)
	}
	wg.Wait()
	for _, site := range order {
		os_ := bySite[site]
		sr := &SiteResult{Site: site, Kind: os_[0].Kind, Fn: os_[0].Fn, Status: "discharged", Paths: len(os_), Descr: os_[0].Descr, Pos: os_[0].Pos}
		bset := map[string]bool{}
		for _, o := range os_ {
			sr.TimeS += o.Res.Time
			if o.Res.Backend == "trivial" {
				sr.Trivial++
			}
			if o.Res.Status == "unsat" {
				bset[o.Res.Backend] = true
				continue
			}
			if sr.Status == "discharged" || (sr.FailStat != "sat" && o.Res.Status == "sat") {
				sr.Status = "failed"
				sr.FailPath = o.Path
				sr.FailStat = o.Res.Status
				sr.Model = map[string]string{}
				for k, v := range o.Res.Model {
					if nn, ok := ex.inputNames[k]; ok {
						sr.Model[nn] = v
					} else {
						sr.Model[k] = v
					}
				}
				sr.PredictedResults = nil
				for _, rt := range o.Results {
					switch {
					case rt == nil:
						sr.PredictedResults = append(sr.PredictedResults, "")
					case rt.IntVal != nil || rt.IsTrue() || rt.String() == "false":
						sr.PredictedResults = append(sr.PredictedResults, rt.String())
					default:
						sr.PredictedResults = append(sr.PredictedResults, o.Res.Model[rt.String()])
					}
				}
				sr.SolverOut = truncate(o.Res.Output, 4000)
				sr.Descr = o.Descr
				sr.Pos = o.Pos
			}
		}
		for b := range bset {
			sr.Backends = append(sr.Backends, b)
		}
		sort.Strings(sr.Backends)
		fr.Sites = append(fr.Sites, sr)
	}
	// vacuity
	reqSat := false
	retSat := 0
	retSites := map[string]bool{}
	retSiteSat := map[string]bool{}
	for i, c := range ex.covers {
		if strings.HasSuffix(c.Site, "/cover:requires") {
			reqSat = coverRes[i].Status == "sat"
			if coverRes[i].Status != "sat" && coverRes[i].Status != "unsat" {
				reqSat = true // undecided: do not raise a vacuity alarm
				ex.warnings = append(ex.warnings, "cover:requires undecided ("+coverRes[i].Status+")")
			}
			continue
		}
		if coverRes[i].Status == "skipped" {
			continue
		}
		retSites[c.Site] = true
		if coverRes[i].Status != "unsat" {
			retSat++
			retSiteSat[c.Site] = true
		}
	}
	fr.Covers = len(ex.covers)
	if !reqSat {
		fr.CoverBad = append(fr.CoverBad, "requires clause is unsatisfiable (vacuous contract)")
	}
	if len(retSites) > 0 && retSat == 0 {
		fr.CoverBad = append(fr.CoverBad, "no return is reachable under the contract (vacuous)")
	}
	for s := range retSites {
		ord := 0
		if i := strings.LastIndex(s, "#"); i >= 0 {
			ord, _ = strconv.Atoi(s[i+1:])
		}
		declared := ex.spec != nil && ex.spec.DeadReturns[ord]
		switch {
		case !retSiteSat[s] && declared:
			ex.warnings = append(ex.warnings, "return site "+s+" is unreachable under the contract, as declared (deadreturn)")
		case !retSiteSat[s] && ex.spec != nil && ex.spec.Lemma:
			ex.warnings = append(ex.warnings, "unreachable return site "+s+" (lemma harness)")
		case !retSiteSat[s]:
			// everything proved about this return is vacuous: contradictory callee contracts or hypotheses
			fr.CoverBad = append(fr.CoverBad, "return site "+s+" is unreachable under the contract (what is proved about it is vacuous); declare it with `deadreturn` if that is intended")
		case declared:
			fr.CoverBad = append(fr.CoverBad, "return site "+s+" is declared deadreturn but is reachable")
		}
	}
}

func truncate(s string, n int) string {
	if len(s) > n {
		return s[:n] + "..."
	}
	return s
}

// ---- known findings ----

type KnownFinding struct {
	Property   string `json:"property"`
	Obligation string `json:"obligation"`
	Status     string `json:"status"` // "open" or "fixed: property=<id> <commit> <what failed>"
	What       string `json:"what"`
	Input      string `json:"input,omitempty"`
}

func loadKnownFindings(verifDir string) []KnownFinding {
	b, err := os.ReadFile(filepath.Join(verifDir, "known_findings.json"))
	if err != nil {
		return nil
	}
	var kf struct {
		Findings []KnownFinding `json:"findings"`
	}
	if err := json.Unmarshal(b, &kf); err != nil {
		fmt.Fprintln(os.Stderr, "known_findings.json:", err)
		return nil
	}
	return kf.Findings
}

// ---- property check ----

type Evidence struct {
	PropertyID  string         `json:"property_id"`
	Tier        string         `json:"tier"`
	Seed        int            `json:"seed"`
	Level       string         `json:"level"`
	Coverage    map[string]any `json:"coverage"`
	Assumptions []string       `json:"assumptions"`
	WallS       float64        `json:"wall_s"`
	Violations  int            `json:"violations"`
}

func runCheck(repo, verifDir string, opts CheckOpts, overlay map[string][]byte, writeEvidence bool) int {
	t0 := time.Now()
	cexSearches = 0
	if overlay == nil {
		seedProbes, seedUnstable = 0, 0
	}
	// per-run caches that refer to the loaded program (a long-running selftest would otherwise keep every
	// program it ever loaded alive)
	loopCache = map[*ssa.Function]*loopInfo{}
	ghostOwners = map[string]*types.Named{}
	seqTypes = map[string]*types.Named{}
	termBounds = map[string][2]*big.Int{}
	defer runtime.GC()
	prop := opts.Prop
	// load specs first to find the packages
	sp0, err := LoadSpecs(repo, overlay, verifDir)
	if err != nil {
		return failSetup(prop, verifDir, opts, "cannot parse contracts: "+err.Error(), t0, writeEvidence)
	}
	keys := funcsForProp(sp0, prop)
	if len(keys) == 0 {
		return failSetup(prop, verifDir, opts, "no function under contract for "+prop+" (vacuous check)", t0, writeEvidence)
	}
	pats := pkgPatternsForProp(sp0, prop)
	P, err := LoadProgram(repo, pats, overlay, verifDir)
	if err != nil {
		return failSetup(prop, verifDir, opts, "cannot load repository: "+err.Error(), t0, writeEvidence)
	}
	known := loadKnownFindings(verifDir)
	var results []*FuncResult
	for _, k := range keys {
		if opts.OnlyFn != "" && !strings.Contains(k, opts.OnlyFn) {
			continue
		}
		results = append(results, generateFunction(P, k, opts))
	}
	var fwg sync.WaitGroup
	for _, fr := range results {
		fwg.Add(1)
		go func(fr *FuncResult) {
			defer fwg.Done()
			solveFunction(fr, opts)
		}(fr)
	}
	fwg.Wait()
	// bounded stand-in where the contract-based proof does not apply to the code as it stands
	for i, fr := range results {
		reason := ""
		switch {
		case fr.Err != "" && !strings.Contains(fr.Err, "contract for a function that does not exist"):
			reason = "the proof could not be set up (" + truncate(fr.Err, 160) + ")"
		case loopOnlyFailure(fr) && os.Getenv("GOCV_BOUNDED_LOOPS") != "":
			// (experimental, off by default: too slow / memory hungry on some functions)
			reason = "the loop invariants of the contract do not hold for the loops as they are written now"
		}
		if reason == "" || known != nil && false {
			continue
		}
		if b := boundedFallback(P, fr, opts, reason); b != nil {
			results[i] = b
		}
	}
	// summarise
	nObl, nDis := 0, 0
	byBackend := map[string]int{}
	solverTime := 0.0
	var violations []string
	var knownLines []string
	trusted := map[string]bool{}
	var fnNames []string
	var samples []any
	var bounded []string
	var warnings []string
	vacuity := 0
	replayDir := filepath.Join(verifDir, "replays", prop)
	os.MkdirAll(replayDir, 0o755)
	for _, fr := range results {
		fnNames = append(fnNames, shortKey(fr.Key))
		if fr.Err != "" {
			nObl++
			path := writeReplay(replayDir, shortKey(fr.Key)+".setup", map[string]any{"function": fr.Key, "error": fr.Err, "property": prop})
			violations = append(violations, fmt.Sprintf("VIOLATION property=%s replay=%s no-failing-input-found", prop, path))
			fmt.Printf("%s %s: cannot generate obligations: %s\n", prop, shortKey(fr.Key), fr.Err)
			continue
		}
		for t := range fr.Ex.trusted {
			trusted[t] = true
		}
		bounded = append(bounded, fr.Ex.bounded...)
		if fr.Bounded != "" {
			bounded = append(bounded, fr.Bounded)
			fmt.Printf("BOUNDED: property=%s %s\n", prop, fr.Bounded)
		}
		for _, w := range fr.Ex.warnings {
			warnings = append(warnings, shortKey(fr.Key)+": "+w)
		}
		vacuity += fr.Covers
		for _, bad := range fr.CoverBad {
			nObl++
			path := writeReplay(replayDir, shortKey(fr.Key)+".vacuity", map[string]any{"function": fr.Key, "error": bad, "property": prop})
			violations = append(violations, fmt.Sprintf("VIOLATION property=%s replay=%s no-failing-input-found", prop, path))
			fmt.Printf("%s %s: %s\n", prop, shortKey(fr.Key), bad)
		}
		for _, s := range fr.Sites {
			nObl++
			solverTime += s.TimeS
			if s.Status == "discharged" {
				nDis++
				for _, b := range s.Backends {
					byBackend[b]++
				}
				if len(samples) < 12 && s.Trivial < s.Paths {
					samples = append(samples, map[string]any{"obligation": s.Site, "status": "discharged", "backends": s.Backends, "time_s": round3(s.TimeS), "paths": s.Paths, "what": s.Descr})
				}
				if opts.Verbose {
					fmt.Printf("  ok   %-70s %v %.2fs (%d paths)\n", s.Site, s.Backends, s.TimeS, s.Paths)
				}
				continue
			}
			// failed: known finding?
			kfHit := false
			for _, kf := range known {
				if kf.Property == prop && kf.Obligation == s.Site && kf.Status == "open" {
					kfHit = true
					knownLines = append(knownLines, fmt.Sprintf("KNOWN-FINDING: property=%s %s %s", prop, s.Site, kf.What))
				}
			}
			if kfHit {
				s.Status = "known-finding"
				continue
			}
			// replay
			var rr *ReplayResult
			if overlay == nil {
				// (with an in-memory overlay the real tree does not contain the change: nothing to replay against)
				func() {
					defer func() {
						if r := recover(); r != nil {
							rr = &ReplayResult{Summary: fmt.Sprint("replay not attempted (internal error: ", r, ")")}
							cexMode, boundedMode, genDeadline = false, false, time.Time{}
						}
					}()
					rr = tryReplay(P, fr, s, verifDir)
				}()
			}
			s.Replay = rr
			rec := map[string]any{"property": prop, "obligation": s.Site, "function": fr.Key, "kind": s.Kind, "what": s.Descr, "pos": s.Pos,
				"solver_status": s.FailStat, "solver_output": s.SolverOut, "model": s.Model, "path": s.FailPath, "replay": rr}
			path := writeReplay(replayDir, s.Site, rec)
			suffix := " no-failing-input-found"
			if rr != nil && rr.Confirmed {
				suffix = ""
			}
			fmt.Printf("%s %s  %s  [%s] %s %s\n", prop, s.Site, s.FailStat, s.Kind, s.Descr, s.Pos)
			if len(s.Model) > 0 {
				fmt.Printf("    model: %s\n", modelString(s.Model))
			}
			if rr != nil {
				fmt.Printf("    replay: %s\n", rr.Summary)
			}
			violations = append(violations, fmt.Sprintf("VIOLATION property=%s replay=%s%s", prop, path, suffix))
		}
	}
	for _, l := range knownLines {
		fmt.Println(l)
	}
	// monitor audit: functions of a monitor's package that touch guarded fields but are not under contract
	// for this property are outside the proof (the monitor rule assumes EVERY access is checked)
	for _, u := range unverifiedAccessors(P, prop) {
		warnings = append(warnings, "monitor audit: "+u)
		trusted["not verified, touches monitor-guarded state: "+u] = true
	}
	var tb []string
	for t := range trusted {
		tb = append(tb, t)
	}
	tb = append(tb, P.Specs.TrustedTxt...)
	sort.Strings(tb)
	wall := time.Since(t0).Seconds()
	fmt.Printf("%s: %d/%d obligations discharged (%s), %d functions under contract, %d known findings, %d violations, %.1fs\n",
		prop, nDis, nObl, backendString(byBackend), len(fnNames), len(knownLines), len(violations), wall)
	for _, v := range violations {
		fmt.Println(v)
	}
	// thorough tier: the must-fail corpus of this property (seeded changes applied through an in-memory
	// overlay) guards the generator: every one must raise a violation.  Recorded in the evidence and
	// printed; it does not change the exit status (that is about the property, not about the generator).
	var corpus map[string]any
	if opts.Tier == "thorough" && overlay == nil && len(violations) == 0 && os.Getenv("GOCV_NO_CORPUS") == "" {
		corpus = runCorpus(repo, verifDir, prop)
		fmt.Printf("%s: must-fail corpus: %v seeded changes, %v detected, %v outside the claimed scope, %v not applicable to this tree, missed: %v\n",
			prop, corpus["total"], corpus["detected"], corpus["out_of_scope"], corpus["skipped"], corpus["missed"])
		pass := runPassCorpus(repo, verifDir, prop)
		corpus["behaviour_preserving_rewrites"] = pass
		fmt.Printf("%s: must-pass corpus: %v behaviour-preserving rewrites, %v without alarm, false alarms: %v\n", prop, pass["total"], pass["no_alarm"], pass["false_alarms"])
		wall = time.Since(t0).Seconds()
	}
	if writeEvidence {
		ev := Evidence{PropertyID: prop, Tier: opts.Tier, Seed: seedFromEnv(), Level: "proof", WallS: round3(wall), Violations: len(violations)}
		ev.Coverage = map[string]any{
			"obligations":              nObl - len(knownLines),
			"discharged":               nDis,
			"obligations_excluded_as_known_findings": len(knownLines),
			"discharged_by_solver":     nDis,
			"known_findings":           knownLines,
			"checker_cmd":              fmt.Sprintf("bin/gocv check %s --tier %s   (go/ssa VC generator; z3 4.8.12 | z3 5.1.0 | cvc5 1.0 raced per obligation, timeout %ds)", prop, opts.Tier, opts.TimeoutS),
			"trusted_base":             tb,
			"functions_under_contract": fnNames,
			"by_backend":               byBackend,
			"solver_time_s":            round3(solverTime),
			"bounded":                  bounded,
			"vacuity_checks":           vacuity,
			"warnings":                 warnings,
			"samples":                  samples,
			"contract_files":           relFiles(P.Specs.Files),
		}
		if corpus != nil {
			ev.Coverage["must_fail_corpus"] = corpus
		}
		if opts.All {
			ev.Coverage["seed_stability_probe"] = map[string]any{"queries_over_0.5s_rerun_with_another_seed": seedProbes, "not_discharged_with_the_other_seed": seedUnstable}
		}
		if len(bounded) > 0 {
			// part of the property rests on bounded exploration on this tree: not a proof
			ev.Level = "exploration"
			ev.Coverage["level_note"] = "proof for the functions not listed under 'bounded'; bounded exploration for the listed ones"
		}
		ev.Assumptions = append([]string{
			"the VC generator (go/ssa naive form -> SMT-LIB) and the SMT solvers are trusted",
			"int/uint are 64-bit (GOARCH=amd64); slice len/cap <= 2^47",
			"forward simulation => refinement for all call sequences is a paper step",
		}, tb...)
		writeJSON(filepath.Join(verifDir, "evidence", prop+".json"), ev)
	}
	if len(violations) > 0 {
		return 1
	}
	return 0
}

func relFiles(fs []string) []string {
	var out []string
	for _, f := range fs {
		out = append(out, shortFile(f))
	}
	return out
}

func backendString(m map[string]int) string {
	var ks []string
	for k := range m {
		ks = append(ks, k)
	}
	sort.Strings(ks)
	var parts []string
	for _, k := range ks {
		parts = append(parts, fmt.Sprintf("%s %d", k, m[k]))
	}
	return strings.Join(parts, ", ")
}

func modelString(m map[string]string) string {
	var ks []string
	for k := range m {
		ks = append(ks, k)
	}
	sort.Strings(ks)
	var parts []string
	for _, k := range ks {
		parts = append(parts, k+"="+m[k])
	}
	return truncate(strings.Join(parts, " "), 600)
}

func round3(f float64) float64 { return float64(int(f*1000+0.5)) / 1000 }

func seedFromEnv() int {
	var s int
	fmt.Sscanf(os.Getenv("VERIF_SEED"), "%d", &s)
	return s
}

func writeJSON(path string, v any) {
	os.MkdirAll(filepath.Dir(path), 0o755)
	b, _ := json.MarshalIndent(v, "", " ")
	os.WriteFile(path, append(b, '\n'), 0o644)
}

func writeReplay(dir, site string, rec map[string]any) string {
	name := sanitizeName(site) + ".json"
	p := filepath.Join(dir, name)
	writeJSON(p, rec)
	return p
}

func failSetup(prop, verifDir string, opts CheckOpts, msg string, t0 time.Time, writeEvidence bool) int {
	fmt.Printf("%s: %s\n", prop, msg)
	dir := filepath.Join(verifDir, "replays", prop)
	os.MkdirAll(dir, 0o755)
	path := writeReplay(dir, "setup", map[string]any{"property": prop, "error": msg})
	fmt.Printf("VIOLATION property=%s replay=%s no-failing-input-found\n", prop, path)
	if writeEvidence {
		ev := Evidence{PropertyID: prop, Tier: opts.Tier, Seed: seedFromEnv(), Level: "proof", WallS: round3(time.Since(t0).Seconds()), Violations: 1}
		ev.Coverage = map[string]any{"obligations": 1, "discharged": 0, "checker_cmd": "bin/gocv check " + prop, "trusted_base": []string{}, "explanation": msg}
		writeJSON(filepath.Join(verifDir, "evidence", prop+".json"), ev)
	}
	return 1
}

func flattenAnd(t *Term) []*Term {
	if t.Op == "=>" && len(t.Args) == 2 {
		var out []*Term
		for _, c := range flattenAnd(t.Args[1]) {
			out = append(out, Implies(t.Args[0], c))
		}
		return out
	}
	if t.Op != "and" {
		return []*Term{t}
	}
	var out []*Term
	for _, a := range t.Args {
		out = append(out, flattenAnd(a)...)
	}
	return out
}

// unverifiedAccessors lists functions that read or write a field guarded by a monitor declared for prop
// although they have no (non-assumed) contract for prop.
func unverifiedAccessors(P *Program, prop string) []string {
	var out []string
	for _, m := range P.Specs.Monitors {
		if m.Only != "" && m.Only != prop {
			continue
		}
		// does the property touch this monitor's package at all?
		relevant := false
		for _, k := range funcsForProp(P.Specs, prop) {
			if P.Specs.Funcs[k].PkgPath == m.PkgPath {
				relevant = true
			}
		}
		if !relevant {
			continue
		}
		guard := map[string]bool{}
		for _, g := range m.Guards {
			if strings.HasPrefix(g, "[]") || strings.HasPrefix(g, "pkg:") {
				continue
			}
			if strings.Contains(g, ".") {
				guard[g] = true
			} else {
				guard[m.TypeName+"."+g] = true
			}
		}
		var keys []string
		for k := range P.Funcs {
			keys = append(keys, k)
		}
		sort.Strings(keys)
		for _, k := range keys {
			fn := P.Funcs[k]
			if funcPkgPath(fn) != m.PkgPath || strings.Contains(k, "$") {
				continue
			}
			if cs := P.Specs.For(k, prop); cs != nil && !cs.Assumed {
				listed := false
				for _, p := range cs.Props {
					if p == prop {
						listed = true
					}
				}
				if listed || cs.Inline {
					continue
				}
			}
			if fn.Name() == "init" {
				continue
			}
			touched := ""
			for _, b := range fn.Blocks {
				for _, in := range b.Instrs {
					fa, ok := in.(*ssa.FieldAddr)
					if !ok {
						continue
					}
					pt, ok := fa.X.Type().Underlying().(*types.Pointer)
					if !ok {
						continue
					}
					n, ok := types.Unalias(pt.Elem()).(*types.Named)
					if !ok {
						continue
					}
					st, ok := n.Underlying().(*types.Struct)
					if !ok {
						continue
					}
					if guard[n.Obj().Name()+"."+st.Field(fa.Field).Name()] {
						touched = n.Obj().Name() + "." + st.Field(fa.Field).Name()
					}
				}
			}
			if touched != "" {
				out = append(out, shortKey(k)+" ("+touched+")")
			}
		}
	}
	return out
}
