package main

import (
	"bytes"
	"context"
	"fmt"
	"os"
	"os/exec"
	"path/filepath"
	"strings"
	"sync"
	"sync/atomic"
	"time"
)

type SolverResult struct {
	Status   string // unsat | sat | unknown | timeout | error
	Backend  string
	Time     float64
	Output   string // raw output of the winning (or last) solver
	Model    map[string]string
	AllStats map[string]string // backend -> status (thorough mode)
}

type backend struct {
	name string
	cmd  func(file string, timeoutS int) []string
	// logic to set ("" = none)
	logic string
}

var backends = []backend{
	{"z3-new", func(f string, t int) []string {
		return []string{"z3-new", fmt.Sprintf("-T:%d", t), f}
	}, ""},
	{"z3", func(f string, t int) []string {
		return []string{"z3", fmt.Sprintf("-T:%d", t), f}
	}, ""},
	{"cvc5", func(f string, t int) []string {
		return []string{"cvc5", fmt.Sprintf("--tlimit=%d", t*1000), "--lang=smt2", f}
	}, "ALL"},
	{"cvc5-enum", func(f string, t int) []string {
		return []string{"cvc5", fmt.Sprintf("--tlimit=%d", t*1000), "--lang=smt2", "--enum-inst", f}
	}, "ALL"},
}

// reseeded z3: the stability probe of the thorough tier
var z3Reseeded = backend{"z3-new-seed7", func(f string, t int) []string {
	return []string{"z3-new", fmt.Sprintf("-T:%d", t), "smt.random_seed=7", "sat.random_seed=7", f}
}, ""}

var solverSem = make(chan struct{}, 16)
var queryCounter int64

// workDir is the scratch directory of this run.
var workDir string

func parseStatus(out string) string {
	sawErr := false
	for _, ln := range strings.Split(out, "\n") {
		ln = strings.TrimSpace(ln)
		switch ln {
		case "sat", "unsat", "unknown":
			return ln
		case "timeout":
			return "timeout"
		}
		if strings.HasPrefix(ln, "(error") {
			sawErr = true
		}
	}
	if sawErr {
		return "error"
	}
	if strings.Contains(out, "timeout") || strings.Contains(out, "interrupted") {
		return "timeout"
	}
	return "error"
}

// Solve runs the query on all back ends in parallel; the first definite
// answer wins.  If all==true every back end runs to completion and a
// disagreement is reported as status "disagree".
func Solve(d *Decls, asserts []*Term, getValues []*Term, timeoutS int, all bool, tag string) SolverResult {
	if coverMode(tag) || timeoutS <= 4 {
		return solveWith(backends, d, asserts, getValues, timeoutS, all, tag)
	}
	if all {
		// thorough tier: every back end to completion (cross-check); goals none of them decides on the plain
		// query (non-linear ones) go on to the staged strategy below
		r := solveWith(backends, d, asserts, getValues, timeoutS, true, tag)
		if r.Status == "unsat" || r.Status == "sat" || r.Status == "disagree" {
			return r
		}
	}
	// stage 1: two fast back ends with a short limit; stage 2: the full portfolio
	r := solveWith(backends[:1], d, asserts, getValues, 2, false, tag)
	if r.Status == "sat" || r.Status == "unsat" {
		return r
	}
	// non-linear goals: quantifier-free slice with native arithmetic, raced with the full query
	if qf, ok := qfNonlinearSlice(asserts); ok {
		type res struct {
			r  SolverResult
			qf bool
		}
		ch := make(chan res, 2)
		go func() {
			x := solveWith(backends[:3], d, qf, nil, timeoutS, false, tag+" [qf-nia slice]")
			ch <- res{x, true}
		}()
		go func() {
			x := solveWith(backends, d, asserts, getValues, timeoutS, false, tag)
			ch <- res{x, false}
		}()
		var full *SolverResult
		for i := 0; i < 2; i++ {
			x := <-ch
			if x.qf && x.r.Status == "unsat" {
				x.r.Backend += "/qf-nia"
				x.r.Time += r.Time
				return x.r
			}
			if !x.qf {
				if x.r.Status == "unsat" || x.r.Status == "sat" {
					x.r.Time += r.Time
					return x.r
				}
				full = &x.r
			}
		}
		if full != nil {
			return *full
		}
	}
	r2 := solveWith(backends, d, asserts, getValues, timeoutS, false, tag)
	r2.Time += r.Time
	return r2
}

// qfNonlinearSlice keeps the quantifier-free assertions and replaces the
// axiomatised non-linear operators by the native ones.  Dropping
// hypotheses is sound: unsat of the slice implies unsat of the full query.
func qfNonlinearSlice(asserts []*Term) ([]*Term, bool) {
	uses := false
	var out []*Term
	for _, a := range asserts {
		hasQ := false
		a.walk(func(t *Term) {
			if t.Op == "forall" || t.Op == "exists" {
				hasQ = true
			}
			if t.Op == "nmul" || t.Op == "gdiv" || t.Op == "gmod" {
				uses = true
			}
		})
		if hasQ {
			continue
		}
		out = append(out, nativeNL(a))
	}
	return out, uses
}

func nativeNL(t *Term) *Term {
	if t.IntVal != nil || len(t.Args) == 0 {
		return t
	}
	na := make([]*Term, len(t.Args))
	for i, a := range t.Args {
		na[i] = nativeNL(a)
	}
	switch t.Op {
	case "nmul":
		return App("*", SInt, na[0], na[1])
	case "gdiv":
		return goDivInt(na[0], na[1])
	case "gmod":
		return Sub(na[0], App("*", SInt, na[1], goDivInt(na[0], na[1])))
	}
	return &Term{Op: t.Op, Sort: t.Sort, Args: na}
}

func solveWith(backends []backend, d *Decls, asserts []*Term, getValues []*Term, timeoutS int, all bool, tag string) SolverResult {
	id := atomic.AddInt64(&queryCounter, 1)
	base := filepath.Join(workDir, fmt.Sprintf("q%06d", id))
	type one struct {
		b   backend
		st  string
		out string
		t   float64
	}
	ctx, cancel := context.WithCancel(context.Background())
	defer cancel()
	resCh := make(chan one, len(backends))
	var wg sync.WaitGroup
	scripts := map[string]string{}
	for _, b := range backends {
		if _, ok := scripts[b.logic]; !ok {
			scripts[b.logic] = d.Script(asserts, getValues, b.logic)
		}
	}
	for _, b := range backends {
		b := b
		file := base + "." + b.name + ".smt2"
		if err := os.WriteFile(file, []byte("; "+tag+"\n"+scripts[b.logic]), 0o644); err != nil {
			panic(err)
		}
		wg.Add(1)
		go func() {
			defer wg.Done()
			solverSem <- struct{}{}
			defer func() { <-solverSem }()
			if ctx.Err() != nil {
				resCh <- one{b, "cancelled", "", 0}
				return
			}
			args := b.cmd(file, timeoutS)
			c := exec.CommandContext(ctx, args[0], args[1:]...)
			var buf bytes.Buffer
			c.Stdout = &buf
			c.Stderr = &buf
			t0 := time.Now()
			done := make(chan struct{})
			go func() {
				select {
				case <-time.After(time.Duration(timeoutS+2) * time.Second):
					if c.Process != nil {
						c.Process.Kill()
					}
				case <-done:
				}
			}()
			c.Run()
			close(done)
			el := time.Since(t0).Seconds()
			out := buf.String()
			st := parseStatus(out)
			if ctx.Err() != nil && st != "sat" && st != "unsat" {
				st = "cancelled"
			}
			resCh <- one{b, st, out, el}
		}()
	}
	go func() { wg.Wait(); close(resCh) }()
	var res SolverResult
	res.Status = "unknown"
	res.AllStats = map[string]string{}
	var got *one
	for r := range resCh {
		r := r
		res.AllStats[r.b.name] = r.st
		if r.st == "sat" || r.st == "unsat" || (coverMode(tag) && r.st == "unknown") {
			if got == nil {
				got = &r
				if !all {
					cancel()
				}
			} else if got.st != r.st {
				res.Status = "disagree"
			}
		} else if got == nil {
			if res.Output == "" || r.st == "unknown" {
				res.Output = r.out
				res.Backend = r.b.name
				res.Time = r.t
				if r.st != "cancelled" {
					res.Status = r.st
				}
			}
		}
	}
	if got != nil {
		if res.Status != "disagree" {
			res.Status = got.st
		}
		res.Backend = got.b.name
		res.Time = got.t
		res.Output = got.out
		if got.st == "sat" && len(getValues) > 0 {
			res.Model = parseGetValue(got.out)
		}
	}
	if !keepQueries {
		for _, b := range backends {
			os.Remove(base + "." + b.name + ".smt2")
		}
	}
	return res
}

var keepQueries = false

func coverMode(tag string) bool { return strings.Contains(tag, "/cover:") }

// parseGetValue parses "((term value) (term value) ...)" printed after "sat".
func parseGetValue(out string) map[string]string {
	m := map[string]string{}
	i := strings.Index(out, "sat")
	if i < 0 {
		return m
	}
	s := out[i+3:]
	j := strings.Index(s, "(")
	if j < 0 {
		return m
	}
	s = s[j:]
	// tokenise into s-expressions
	sx, _ := parseSexp(s, 0)
	if sx == nil {
		return m
	}
	for _, pair := range sx.kids {
		if len(pair.kids) == 2 {
			m[pair.kids[0].String()] = pair.kids[1].String()
		}
	}
	return m
}

type sexp struct {
	atom string
	kids []*sexp
	list bool
}

func (s *sexp) String() string {
	if !s.list {
		return s.atom
	}
	parts := make([]string, len(s.kids))
	for i, k := range s.kids {
		parts[i] = k.String()
	}
	return "(" + strings.Join(parts, " ") + ")"
}

func parseSexp(s string, i int) (*sexp, int) {
	for i < len(s) && (s[i] == ' ' || s[i] == '\n' || s[i] == '\t' || s[i] == '\r') {
		i++
	}
	if i >= len(s) {
		return nil, i
	}
	if s[i] == '(' {
		r := &sexp{list: true}
		i++
		for {
			for i < len(s) && (s[i] == ' ' || s[i] == '\n' || s[i] == '\t' || s[i] == '\r') {
				i++
			}
			if i >= len(s) {
				return r, i
			}
			if s[i] == ')' {
				return r, i + 1
			}
			var k *sexp
			k, i = parseSexp(s, i)
			if k == nil {
				return r, i
			}
			r.kids = append(r.kids, k)
		}
	}
	j := i
	if s[i] == '|' {
		j = i + 1
		for j < len(s) && s[j] != '|' {
			j++
		}
		j++
	} else if s[i] == '"' {
		j = i + 1
		for j < len(s) && s[j] != '"' {
			j++
		}
		j++
	} else {
		for j < len(s) && s[j] != ' ' && s[j] != '\n' && s[j] != ')' && s[j] != '(' && s[j] != '\t' && s[j] != '\r' {
			j++
		}
	}
	return &sexp{atom: s[i:j]}, j
}
