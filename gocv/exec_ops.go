package main

import (
	"fmt"
	"go/constant"
	"go/token"
	"go/types"
	"math/big"

	"golang.org/x/tools/go/ssa"
)

func pow2(n int) *big.Int { return new(big.Int).Lsh(big.NewInt(1), uint(n)) }

// wrapInt reduces a mathematical integer term to the range of a w-bit
// (un)signed type.  far=false means the term is known to be at most one
// modulus away from the range (add/sub of in-range operands).
func wrapInt(t *Term, w int, signed bool, far bool) *Term {
	lo, hi := intRange(w, signed)
	if ilo, ihi, ok := interval(t); ok && ilo.Cmp(lo) >= 0 && ihi.Cmp(hi) <= 0 {
		return t
	}
	if t.IsLit() {
		m := pow2(w)
		x := new(big.Int).Mod(t.IntVal, m)
		if signed && x.Cmp(hi) > 0 {
			x.Sub(x, m)
		}
		return IntLitBig(x)
	}
	m := IntLitBig(pow2(w))
	if !far {
		return Ite(Gt(t, IntLitBig(hi)), Sub(t, m), Ite(Lt(t, IntLitBig(lo)), Add(t, m), t))
	}
	if !signed {
		return App("mod", SInt, t, m)
	}
	half := IntLitBig(pow2(w - 1))
	return Sub(App("mod", SInt, Add(t, half), m), half)
}

// goDiv / goRem: truncated division on mathematical integers
func goDivInt(a, b *Term) *Term {
	if a.IsLit() && b.IsLit() && b.IntVal.Sign() != 0 {
		return IntLitBig(new(big.Int).Quo(a.IntVal, b.IntVal))
	}
	d := App("div", SInt, a, b)
	// SMT div rounds so that remainder is non-negative: for a>=0 equals truncation.
	// truncation: if a>=0 or b divides a -> div; else (b>0 -> div+1 ; b<0 -> div-1)
	exact := Eq(App("mod", SInt, a, b), IntLit(0))
	return Ite(Or(Ge(a, IntLit(0)), exact), d, Ite(Gt(b, IntLit(0)), Add(d, IntLit(1)), Sub(d, IntLit(1))))
}

func goRemInt(a, b *Term) *Term {
	if a.IsLit() && b.IsLit() && b.IntVal.Sign() != 0 {
		return IntLitBig(new(big.Int).Rem(a.IntVal, b.IntVal))
	}
	return Sub(a, Mul(b, goDivInt(a, b)))
}

func bvBin(op string, a, b *Term) *Term { return App(op, a.Sort, a, b) }

// bvResize changes the width of a BV term.
func bvResize(t *Term, w int, signed bool) *Term {
	cw := t.Sort.BVWidth()
	if cw == w {
		return t
	}
	if t.IsLit() {
		v := new(big.Int).Set(t.IntVal)
		if signed && v.Bit(cw-1) == 1 {
			v.Sub(v, pow2(cw))
		}
		return BVLit(v, w)
	}
	if w < cw {
		return App(fmt.Sprintf("(_ extract %d 0)", w-1), BVSort(w), t)
	}
	if signed {
		return App(fmt.Sprintf("(_ sign_extend %d)", w-cw), BVSort(w), t)
	}
	return App(fmt.Sprintf("(_ zero_extend %d)", w-cw), BVSort(w), t)
}

// intToBV / bvToInt bridges (used only for byte <-> int in int mode)
func intToBV(t *Term, w int) *Term {
	if t.IsLit() {
		return BVLit(t.IntVal, w)
	}
	return App(fmt.Sprintf("(_ int2bv %d)", w), BVSort(w), t)
}
func bvToInt(t *Term, signed bool) *Term {
	w := t.Sort.BVWidth()
	if t.IsLit() {
		v := new(big.Int).Set(t.IntVal)
		if signed && v.Bit(w-1) == 1 {
			v.Sub(v, pow2(w))
		}
		return IntLitBig(v)
	}
	n := App("bv2nat", SInt, t)
	if signed {
		return Ite(Ge(n, IntLitBig(pow2(w-1))), Sub(n, IntLitBig(pow2(w))), n)
	}
	return n
}

// convertInt converts an integer term between Go integer types.
func (ex *Exec) convertInt(t *Term, from, to types.Type) *Term {
	fw, fs, ok1 := intInfo(from)
	tw, ts, ok2 := intInfo(to)
	if !ok1 || !ok2 {
		panic(oos(fmt.Sprintf("convert %s -> %s", from, to)))
	}
	toSort := ex.env.scalarSort(to)
	switch {
	case t.Sort.IsBV() && toSort.IsBV():
		return bvResize(t, tw, fs)
	case t.Sort.IsBV() && toSort == SInt:
		return bvToInt(t, fs)
	case t.Sort == SInt && toSort.IsBV():
		return intToBV(t, tw)
	}
	// Int -> Int
	flo, fhi := intRange(fw, fs)
	tlo, thi := intRange(tw, ts)
	if flo.Cmp(tlo) >= 0 && fhi.Cmp(thi) <= 0 {
		return t
	}
	if fw == tw {
		return wrapInt(t, tw, ts, false)
	}
	return wrapInt(t, tw, ts, true)
}

func (ex *Exec) constVal(c *ssa.Const) *Val {
	t := c.Type()
	if c.Value == nil {
		return ex.zeroVal(t)
	}
	rt := ex.env.resolve(t)
	if b, ok := rt.Underlying().(*types.Basic); ok {
		switch {
		case b.Info()&types.IsBoolean != 0:
			if constant.BoolVal(c.Value) {
				return scalar(TTrue)
			}
			return scalar(TFalse)
		case b.Info()&types.IsString != 0:
			return scalar(ex.strConst(constant.StringVal(c.Value)))
		case b.Info()&types.IsInteger != 0:
			v, _ := new(big.Int).SetString(c.Value.ExactString(), 10)
			if v == nil {
				iv, _ := constant.Int64Val(constant.ToInt(c.Value))
				v = big.NewInt(iv)
			}
			s := ex.env.basicSort(b)
			if s.IsBV() {
				return scalar(BVLit(v, s.BVWidth()))
			}
			return scalar(IntLitBig(v))
		case b.Info()&types.IsFloat != 0:
			return scalar(ex.fresh("floatconst", ex.env.basicSort(b)))
		}
	}
	if _, ok := rt.(*types.TypeParam); ok {
		return ex.zeroVal(t)
	}
	panic(oos("constant of type " + t.String()))
}

// binop implements ssa.BinOp on scalar terms.
func (ex *Exec) binop(st *State, op token.Token, x, y *Val, xt, yt types.Type, instr ssa.Instruction) *Val {
	xt = ex.env.resolve(xt)
	switch op {
	case token.EQL, token.NEQ:
		// a pointer into an object (field / element / local) against nil or against another such pointer
		if xi, yi := x != nil && x.Loc != nil && x.T == nil, y != nil && y.Loc != nil && y.T == nil; xi || yi {
			var eq *Term
			switch {
			case xi && yi:
				same := x.Loc.Kind == y.Loc.Kind && x.Loc.PathS == y.Loc.PathS && x.Loc.Cell == y.Loc.Cell
				if same && x.Loc.Kind == LHeap {
					eq = Eq(x.Loc.Ref, y.Loc.Ref)
				} else if same && x.Loc.Kind == LElem {
					eq = And(Eq(x.Loc.Arr, y.Loc.Arr), Eq(x.Loc.Idx, y.Loc.Idx))
				} else if same {
					eq = TTrue
				} else {
					eq = TFalse
				}
			case xi && y != nil && y.T != nil:
				eq = TFalse // an interior pointer is never nil (and never a whole-object reference)
			case yi && x != nil && x.T != nil:
				eq = TFalse
			}
			if eq != nil {
				if op == token.NEQ {
					eq = Not(eq)
				}
				return scalar(eq)
			}
		}
		eq := ex.valEq(xt, x, y)
		if op == token.NEQ {
			eq = Not(eq)
		}
		return scalar(eq)
	}
	a, b := ex.valTerm(x), ex.valTerm(y)
	if bt, ok := xt.Underlying().(*types.Basic); ok && bt.Info()&types.IsString != 0 {
		switch op {
		case token.ADD:
			f := ex.env.d.Func("str_concat", a.Sort, a.Sort, a.Sort)
			r := ex.env.d.Apply(f.Name, a, b)
			st.assume(Eq(ex.strLen(r), ex.iadd(ex.strLen(a), ex.strLen(b))))
			return scalar(r)
		case token.LSS, token.LEQ, token.GTR, token.GEQ:
			f := ex.env.d.Func("str_lt", SBool, a.Sort, a.Sort)
			switch op {
			case token.LSS:
				return scalar(ex.env.d.Apply(f.Name, a, b))
			case token.GTR:
				return scalar(ex.env.d.Apply(f.Name, b, a))
			case token.LEQ:
				return scalar(Not(ex.env.d.Apply(f.Name, b, a)))
			default:
				return scalar(Not(ex.env.d.Apply(f.Name, a, b)))
			}
		}
	}
	if bt, ok := xt.Underlying().(*types.Basic); ok && bt.Info()&types.IsFloat != 0 {
		// floats are opaque
		switch op {
		case token.LSS, token.LEQ, token.GTR, token.GEQ:
			return scalar(ex.fresh("fcmp", SBool))
		}
		return scalar(ex.fresh("fop", a.Sort))
	}
	w, signed, ok := intInfo(xt)
	if !ok {
		panic(oos(fmt.Sprintf("binop %s on %s", op, xt)))
	}
	pos := ex.pos(instr)
	site := func(kind string) string { return fmt.Sprintf("%s/%s#%d", ex.fnName(), kind, ex.siteOrd[instr]) }
	if a.Sort.IsBV() {
		switch op {
		case token.ADD:
			return scalar(bvBin("bvadd", a, b))
		case token.SUB:
			return scalar(bvBin("bvsub", a, b))
		case token.MUL:
			return scalar(bvBin("bvmul", a, b))
		case token.QUO, token.REM:
			ex.check(st, "div", site("div"), Neq(b, BVLit64(0, w)), "division by zero", pos)
			st.assume(Neq(b, BVLit64(0, w)))
			o := map[bool]map[token.Token]string{true: {token.QUO: "bvsdiv", token.REM: "bvsrem"}, false: {token.QUO: "bvudiv", token.REM: "bvurem"}}
			return scalar(bvBin(o[signed][op], a, b))
		case token.AND:
			return scalar(bvBin("bvand", a, b))
		case token.OR:
			return scalar(bvBin("bvor", a, b))
		case token.XOR:
			return scalar(bvBin("bvxor", a, b))
		case token.AND_NOT:
			return scalar(bvBin("bvand", a, App("bvnot", b.Sort, b)))
		case token.SHL, token.SHR:
			return scalar(ex.bvShift(st, op, a, b, w, signed, yt, instr))
		case token.LSS, token.LEQ, token.GTR, token.GEQ:
			o := map[bool]map[token.Token]string{
				true:  {token.LSS: "bvslt", token.LEQ: "bvsle", token.GTR: "bvsgt", token.GEQ: "bvsge"},
				false: {token.LSS: "bvult", token.LEQ: "bvule", token.GTR: "bvugt", token.GEQ: "bvuge"}}
			return scalar(App(o[signed][op], SBool, a, b))
		}
		panic(oos("bv binop " + op.String()))
	}
	// mathematical integers with explicit wrap-around
	switch op {
	case token.ADD:
		return scalar(wrapInt(Add(a, b), w, signed, false))
	case token.SUB:
		return scalar(wrapInt(Sub(a, b), w, signed, false))
	case token.MUL:
		prod := ex.nlMul(a, b)
		if lo, hi, ok := interval(prod); ok {
			tlo, thi := intRange(w, signed)
			if lo.Cmp(tlo) >= 0 && hi.Cmp(thi) <= 0 {
				return scalar(prod)
			}
		}
		if !signed {
			return scalar(wrapInt(prod, w, signed, true))
		}
		// product of two symbolic operands: overflow is never intended in this code base;
		// it is an obligation, and the result is then the mathematical product
		tlo, thi := intRange(w, signed)
		inRange := And(Le(IntLitBig(tlo), prod), Le(prod, IntLitBig(thi)))
		ex.check(st, "overflow", site("overflow:mul"), inRange, "integer overflow in multiplication", pos)
		st.assume(inRange)
		return scalar(prod)
	case token.QUO, token.REM:
		ex.check(st, "div", site("div"), Neq(b, IntLit(0)), "division by zero", pos)
		st.assume(Neq(b, IntLit(0)))
		if op == token.QUO {
			// MinInt / -1 wraps
			return scalar(wrapInt(ex.nlDiv(a, b), w, signed, false))
		}
		return scalar(ex.nlMod(a, b))
	case token.LSS:
		return scalar(Lt(a, b))
	case token.LEQ:
		return scalar(Le(a, b))
	case token.GTR:
		return scalar(Gt(a, b))
	case token.GEQ:
		return scalar(Ge(a, b))
	case token.SHL, token.SHR:
		if _, ysigned, _ := intInfo(ex.env.resolve(yt)); ysigned {
			ysort := b
			if ysort.Sort == SInt {
				ex.check(st, "shift", site("shift"), Ge(b, IntLit(0)), "negative shift count", pos)
			}
		}
		var bi *Term = b
		if b.Sort.IsBV() {
			bi = bvToInt(b, false)
		}
		if bi.IsLit() && bi.IntVal.IsInt64() && bi.IntVal.Int64() < 64 && bi.IntVal.Int64() >= 0 {
			k := int(bi.IntVal.Int64())
			if op == token.SHL {
				return scalar(wrapInt(Mul(a, IntLitBig(pow2(k))), w, signed, true))
			}
			return scalar(App("div", SInt, a, IntLitBig(pow2(k))))
		}
		if a.IsLit() && op == token.SHL && a.IntVal.Sign() >= 0 && a.IntVal.BitLen() <= 8 {
			// small constant shifted by a variable amount: ite chain (pow2)
			res := IntLit(0)
			for k := w - 1; k >= 0; k-- {
				res = Ite(Eq(bi, IntLit(int64(k))), wrapInt(IntLitBig(new(big.Int).Lsh(a.IntVal, uint(k))), w, signed, true), res)
			}
			return scalar(res)
		}
		fn := "ishl"
		if op == token.SHR {
			fn = "ishr"
		}
		f := ex.env.d.Func(fn, SInt, SInt, SInt)
		r := ex.env.d.Apply(f.Name, a, bi)
		lo, hi := intRange(w, signed)
		st.assume(And(Le(IntLitBig(lo), r), Le(r, IntLitBig(hi))))
		return scalar(r)
	case token.AND, token.OR, token.XOR, token.AND_NOT:
		if op == token.AND && b.IsLit() && b.IntVal.Sign() >= 0 {
			// x & (2^k - 1) == x mod 2^k
			p := new(big.Int).Add(b.IntVal, big.NewInt(1))
			if p.BitLen() > 0 && new(big.Int).And(p, b.IntVal).Sign() == 0 {
				return scalar(App("mod", SInt, a, IntLitBig(p)))
			}
		}
		fn := map[token.Token]string{token.AND: "iand", token.OR: "ior", token.XOR: "ixor", token.AND_NOT: "iandnot"}[op]
		f := ex.env.d.Func(fn, SInt, SInt, SInt)
		r := ex.env.d.Apply(f.Name, a, b)
		lo, hi := intRange(w, signed)
		st.assume(And(Le(IntLitBig(lo), r), Le(r, IntLitBig(hi))))
		if op == token.AND {
			// x&y == 0 iff ... nothing; but and with non-negative operand is bounded by it
			st.assume(Implies(And(Ge(a, IntLit(0)), Ge(b, IntLit(0))), And(Le(r, a), Le(r, b), Ge(r, IntLit(0)))))
		}
		return scalar(r)
	}
	panic(oos("int binop " + op.String()))
}

func (ex *Exec) bvShift(st *State, op token.Token, a, b *Term, w int, signed bool, yt types.Type, instr ssa.Instruction) *Term {
	_, ysigned, _ := intInfo(ex.env.resolve(yt))
	site := fmt.Sprintf("%s/shift#%d", ex.fnName(), ex.siteOrd[instr])
	shop := "bvshl"
	if op == token.SHR {
		shop = "bvlshr"
		if signed {
			shop = "bvashr"
		}
	}
	if b.Sort.IsBV() {
		bw := b.Sort.BVWidth()
		if ysigned {
			ex.check(st, "shift", site, App("bvsge", SBool, b, BVLit64(0, bw)), "negative shift count", ex.pos(instr))
		}
		if bw == w {
			return bvBin(shop, a, b)
		}
		if bw < w {
			return bvBin(shop, a, bvResize(b, w, false))
		}
		// wider count: saturate
		big_ := App("bvuge", SBool, b, BVLit64(uint64(w), bw))
		sat := BVLit64(uint64(w), w)
		return bvBin(shop, a, Ite(big_, sat, bvResize(b, w, false)))
	}
	// Int-sorted count, BV operand: ite chain over 0..w-1
	if ysigned {
		ex.check(st, "shift", site, Ge(b, IntLit(0)), "negative shift count", ex.pos(instr))
	}
	var res *Term
	if shop == "bvashr" {
		res = bvBin(shop, a, BVLit64(uint64(w-1), w))
	} else {
		res = BVLit64(0, w)
	}
	for k := w - 1; k >= 0; k-- {
		res = Ite(Eq(b, IntLit(int64(k))), bvBin(shop, a, BVLit64(uint64(k), w)), res)
	}
	return res
}

// valEq compares two values of the same type structurally.
func (ex *Exec) valEq(t types.Type, x, y *Val) *Term {
	t = ex.env.resolve(t)
	if _, ok := t.Underlying().(*types.Slice); ok {
		// slices compare only against nil
		var sl *SliceV
		if x.Sl != nil && isNilSlice(y) {
			sl = x.Sl
		} else if y.Sl != nil && isNilSlice(x) {
			sl = y.Sl
		} else if x.Sl != nil && y.Sl != nil {
			// comparison produced by nil constant (zero slice value)
			if y.Sl.Arr.IsLit() {
				sl = x.Sl
			} else {
				sl = y.Sl
			}
		}
		if sl == nil {
			panic(oos("slice comparison"))
		}
		return Eq(sl.Arr, IntLit(0))
	}
	var xs, ys []*Term
	ex.flatten(t, x, "", func(l Leaf, tm *Term) { xs = append(xs, tm) })
	ex.flatten(t, y, "", func(l Leaf, tm *Term) { ys = append(ys, tm) })
	if len(xs) != len(ys) {
		panic(oos("valEq shape mismatch"))
	}
	var cs []*Term
	for i := range xs {
		cs = append(cs, Eq(xs[i], ys[i]))
	}
	return And(cs...)
}

func isNilSlice(v *Val) bool {
	return v.Sl != nil && v.Sl.Arr.IsLit() && v.Sl.Arr.IntVal.Sign() == 0
}

func (ex *Exec) unop(st *State, u *ssa.UnOp, x *Val) *Val {
	t := ex.env.resolve(u.X.Type())
	switch u.Op {
	case token.NOT:
		return scalar(Not(x.T))
	case token.SUB:
		a := ex.valTerm(x)
		w, signed, ok := intInfo(t)
		if !ok {
			return scalar(ex.fresh("fneg", a.Sort))
		}
		if a.Sort.IsBV() {
			return scalar(App("bvneg", a.Sort, a))
		}
		return scalar(wrapInt(Neg(a), w, signed, false))
	case token.XOR:
		a := ex.valTerm(x)
		w, signed, _ := intInfo(t)
		if a.Sort.IsBV() {
			return scalar(App("bvnot", a.Sort, a))
		}
		if signed {
			return scalar(Sub(Neg(a), IntLit(1)))
		}
		return scalar(Sub(IntLitBig(new(big.Int).Sub(pow2(w), big.NewInt(1))), a))
	}
	panic(oos("unop " + u.Op.String()))
}

// ---- cheap interval analysis (typing facts only) ----

// termBounds records universally valid typing bounds of atomic terms:
// integer-typed values lie in their type's range, slice headers in [0, 2^47].
var termBounds = map[string][2]*big.Int{}

func noteBounds(t *Term, lo, hi *big.Int) {
	if t.IsLit() || t.Sort != SInt {
		return
	}
	k := t.String()
	if old, ok := termBounds[k]; ok {
		// keep the tighter one
		if old[0].Cmp(lo) > 0 {
			lo = old[0]
		}
		if old[1].Cmp(hi) < 0 {
			hi = old[1]
		}
	}
	termBounds[k] = [2]*big.Int{lo, hi}
}

func interval(t *Term) (lo, hi *big.Int, ok bool) {
	if t.Sort != SInt {
		return nil, nil, false
	}
	if t.IsLit() {
		return t.IntVal, t.IntVal, true
	}
	if b, ok := termBounds[t.String()]; ok {
		return b[0], b[1], true
	}
	switch t.Op {
	case "+":
		lo, hi = big.NewInt(0), big.NewInt(0)
		for _, a := range t.Args {
			l, h, ok := interval(a)
			if !ok {
				return nil, nil, false
			}
			lo = new(big.Int).Add(lo, l)
			hi = new(big.Int).Add(hi, h)
		}
		return lo, hi, true
	case "-":
		if len(t.Args) == 1 {
			l, h, ok := interval(t.Args[0])
			if !ok {
				return nil, nil, false
			}
			return new(big.Int).Neg(h), new(big.Int).Neg(l), true
		}
		l, h, ok := interval(t.Args[0])
		if !ok {
			return nil, nil, false
		}
		lo, hi = l, h
		for _, a := range t.Args[1:] {
			l2, h2, ok := interval(a)
			if !ok {
				return nil, nil, false
			}
			lo = new(big.Int).Sub(lo, h2)
			hi = new(big.Int).Sub(hi, l2)
		}
		return lo, hi, true
	case "ite":
		l1, h1, ok1 := interval(t.Args[1])
		l2, h2, ok2 := interval(t.Args[2])
		if !ok1 || !ok2 {
			return nil, nil, false
		}
		if l2.Cmp(l1) < 0 {
			l1 = l2
		}
		if h2.Cmp(h1) > 0 {
			h1 = h2
		}
		return l1, h1, true
	case "*":
		if len(t.Args) == 2 {
			l1, h1, ok1 := interval(t.Args[0])
			l2, h2, ok2 := interval(t.Args[1])
			if !ok1 || !ok2 {
				return nil, nil, false
			}
			cands := []*big.Int{new(big.Int).Mul(l1, l2), new(big.Int).Mul(l1, h2), new(big.Int).Mul(h1, l2), new(big.Int).Mul(h1, h2)}
			lo, hi = cands[0], cands[0]
			for _, c := range cands[1:] {
				if c.Cmp(lo) < 0 {
					lo = c
				}
				if c.Cmp(hi) > 0 {
					hi = c
				}
			}
			return lo, hi, true
		}
	case "mod":
		if t.Args[1].IsLit() && t.Args[1].IntVal.Sign() > 0 {
			return big.NewInt(0), new(big.Int).Sub(t.Args[1].IntVal, big.NewInt(1)), true
		}
	}
	return nil, nil, false
}

// ---- non-linear integer arithmetic: uninterpreted with lemma axioms ----
// Products, quotients and remainders of two symbolic operands are kept as
// applications of nmul / gdiv / gmod (Go truncated division).  The axioms
// below are true facts of integer arithmetic; they are instantiated by
// triggers, which keeps every obligation within linear arithmetic.

func (ex *Exec) nlFuncs() {
	if _, ok := ex.env.d.Funcs["nmul"]; ok {
		return
	}
	d := ex.env.d
	d.Func("nmul", SInt, SInt, SInt)
	d.Func("gdiv", SInt, SInt, SInt)
	d.Func("gmod", SInt, SInt, SInt)
	ex.trusted["non-linear arithmetic is axiomatised (nmul/gdiv/gmod: commutativity, sign, strict monotonicity, associativity, division identity)"] = true
	a, a2, b, c := Sym("a!nl", SInt), Sym("a2!nl", SInt), Sym("b!nl", SInt), Sym("c!nl", SInt)
	mul := func(x, y *Term) *Term { return App("nmul", SInt, x, y) }
	z := IntLit(0)
	// commutativity
	ex.addNLAxiom(Forall([]*Term{a, b}, Eq(mul(a, b), mul(b, a)), []*Term{mul(a, b)}))
	// sign and zero
	ex.addNLAxiom(Forall([]*Term{a, b}, And(
		Implies(And(Ge(a, z), Ge(b, z)), Ge(mul(a, b), z)),
		Implies(And(Gt(a, z), Gt(b, z)), And(Ge(mul(a, b), a), Ge(mul(a, b), b))),
		Implies(Or(Eq(a, z), Eq(b, z)), Eq(mul(a, b), z)),
		Implies(Eq(b, IntLit(1)), Eq(mul(a, b), a))), []*Term{mul(a, b)}))
	// strict monotonicity with gap: a < a2, b >= 0  ==>  a*b + b <= a2*b
	ex.addNLAxiom(Forall([]*Term{a, a2, b}, And(
		Implies(And(Lt(a, a2), Ge(b, z)), Le(Add(mul(a, b), b), mul(a2, b))),
		Implies(Eq(a2, Add(a, IntLit(1))), Eq(mul(a2, b), Add(mul(a, b), b)))), []*Term{mul(a, b), mul(a2, b)}))
	// associativity, only between products that both already occur
	ex.addNLAxiom(Forall([]*Term{a, b, c}, Eq(mul(mul(a, b), c), mul(a, mul(b, c))), []*Term{mul(mul(a, b), c), mul(a, mul(b, c))}))
	// truncated division
	dv := App("gdiv", SInt, a, b)
	md := App("gmod", SInt, a, b)
	// uniqueness of quotient and remainder
	q := Sym("q!nl", SInt)
	ex.addNLAxiom(Forall([]*Term{a, b, q}, Implies(And(Gt(b, z), Le(mul(q, b), a), Lt(a, Add(mul(q, b), b)), Ge(a, z)), And(Eq(dv, q), Eq(md, Sub(a, mul(q, b))))), []*Term{dv, mul(q, b)}, []*Term{md, mul(q, b)}))
	ex.addNLAxiom(Forall([]*Term{a, b}, Implies(Gt(b, z), And(
		Eq(a, Add(mul(dv, b), md)),
		Implies(Ge(a, z), And(Ge(dv, z), Ge(md, z), Lt(md, b), Le(dv, a))),
		Implies(Lt(a, z), And(Le(dv, z), Le(md, z), Gt(md, Neg(b)))))), []*Term{dv}, []*Term{md}))
}

func (ex *Exec) nlMul(a, b *Term) *Term {
	if a.IsLit() || b.IsLit() {
		return Mul(a, b)
	}
	ex.nlFuncs()
	return App("nmul", SInt, a, b)
}

func (ex *Exec) nlDiv(a, b *Term) *Term {
	if b.IsLit() {
		return goDivInt(a, b)
	}
	ex.nlFuncs()
	return App("gdiv", SInt, a, b)
}

func (ex *Exec) nlMod(a, b *Term) *Term {
	if b.IsLit() {
		return goRemInt(a, b)
	}
	ex.nlFuncs()
	return App("gmod", SInt, a, b)
}

func (ex *Exec) addNLAxiom(t *Term) {
	k := t.String()
	if ex.axiomSet[k] {
		return
	}
	ex.axiomSet[k] = true
	ex.nlAxioms = append(ex.nlAxioms, t)
}
