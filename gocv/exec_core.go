package main

import (
	"fmt"
	"os"
	"runtime/debug"
	"go/types"
	"math/big"
	"strings"

	"golang.org/x/tools/go/ssa"
)

type Oblig struct {
	Site  string
	Kind  string
	Path  string
	Hyps  []*Term
	Goal  *Term
	Pos   string
	Descr string
	Fn    string
	// post obligations: the symbolic results of the returning path (scalar results only; nil otherwise).
	// Their model values are what the counterexample predicts the real code returns.
	Results []*Term
	// filled by the solver stage
	Res SolverResult
}

type Exec struct {
	P    *Program
	env  *TEnv
	fn   *ssa.Function
	spec *FuncSpec
	prop string

	obligs []*Oblig
	covers []*Oblig
	nfresh int

	initHeap map[string]*Term
	axioms   []*Term
	curResults []*Term // scalar result terms of the return being checked (nil entries for non-scalar results)
	recvShape []recvField // reconstructible fields of the receiver (replay); nil: not reconstructible
	recvType  *types.Named
	preOnly  bool // callContractSig: check the precondition only (go statements)
	nlAxioms []*Term // lemma axioms of the non-linear operators (added to a query only when needed)
	axiomSet map[string]bool
	strs     map[string]*Term

	entry      *State
	entryVals  map[string]*Val // parameter entry values by spec name
	paramTypes map[string]types.Type
	ghostVals  map[string]*SV

	siteOrd  map[ssa.Instruction]int
	npaths   int
	maxPaths int
	frameN   int

	trusted  map[string]bool
	callees  map[string]bool
	bounded  []string
	warnings []string

	inputs []*Term // terms whose model values are requested on sat
	inputNames map[string]string // friendly names of input terms (slice elements)

	modTargets []*modTarget // function-level modifies, evaluated at entry
	usedSpecFn map[string]bool
	specDepth  int
	recDefs    map[string]bool
	sentinels  map[string]*Term
}

type modTarget struct {
	kind string // "field", "elems", "map", "all"
	key  string // heap key (field) or key prefix
	ref  *Term
	base types.Type
	path string
	typ  types.Type
	sl   *SliceV
	src  string
	bound *Term // fieldq: bound variable
	cond  *Term // fieldq: which objects may change
}

func (ex *Exec) fresh(prefix string, s Sort) *Term {
	ex.nfresh++
	return ex.env.d.Const(fmt.Sprintf("%s!%d", sanitizeName(prefix), ex.nfresh), s)
}

func (ex *Exec) addAxiom(t *Term) {
	k := t.String()
	if ex.axiomSet[k] {
		return
	}
	ex.axiomSet[k] = true
	ex.axioms = append(ex.axioms, t)
}

func (ex *Exec) check(st *State, kind, site string, goal *Term, descr string, pos string) {
	if goal.IsTrue() {
		ex.obligs = append(ex.obligs, &Oblig{Site: site, Kind: kind, Path: st.pathID, Goal: goal, Descr: descr, Pos: pos, Fn: ex.fnName()})
		return
	}
	o := &Oblig{Site: site, Kind: kind, Path: st.pathID, Hyps: append([]*Term(nil), st.pc...), Goal: goal, Descr: descr, Pos: pos, Fn: ex.fnName()}
	if kind == "post" {
		o.Results = ex.curResults
	}
	ex.obligs = append(ex.obligs, o)
}

func (ex *Exec) fnName() string {
	k := ex.spec.Key
	return strings.TrimPrefix(k, modulePath+"/")
}

func (ex *Exec) pos(instr ssa.Instruction) string {
	if instr == nil {
		return ""
	}
	p := instr.Pos()
	if !p.IsValid() {
		return ""
	}
	pp := ex.P.Prog.Fset.Position(p)
	return fmt.Sprintf("%s:%d", strings.TrimPrefix(pp.Filename, ex.P.Repo+"/"), pp.Line)
}

// ---------- heap ----------

func (ex *Exec) heapGet(st *State, key string, sort Sort) *Term {
	if t, ok := st.heap[key]; ok {
		return t
	}
	return ex.heap0(key, sort)
}

func (ex *Exec) heap0(key string, sort Sort) *Term {
	if t, ok := ex.initHeap[key]; ok {
		return t
	}
	t := ex.env.d.Const(symSafe("H0 "+key), sort)
	ex.initHeap[key] = t
	return t
}

func (ex *Exec) fieldKey(base types.Type, path string) string {
	return "F " + ex.env.typeKey(base) + " " + path
}
func (ex *Exec) elemKey(elem types.Type, path string) string {
	return "E " + ex.env.typeKey(elem) + " " + path
}

func (ex *Exec) fieldArr(st *State, base types.Type, path string, leaf Sort) *Term {
	return ex.heapGet(st, ex.fieldKey(base, path), ArraySort(SRef, leaf))
}
func (ex *Exec) elemArr(st *State, elem types.Type, path string, leaf Sort) *Term {
	return ex.heapGet(st, ex.elemKey(elem, path), ArraySort(SRef, ArraySort(ex.env.IntS(), leaf)))
}

func (ex *Exec) allocArr(st *State) *Term {
	return ex.heapGet(st, "alloc", ArraySort(SRef, SBool))
}

// newRef allocates a fresh object reference.
func (ex *Exec) newRef(st *State, what string, typeKey string) *Term {
	r := ex.fresh("new_"+what, SRef)
	al := ex.allocArr(st)
	st.assume(Not(Select(al, r)))
	st.assume(Neq(r, IntLit(0)))
	st.assume(Gt(r, IntLit(0)))
	st.heap["alloc"] = Store(al, r, TTrue)
	for _, f := range st.fresh {
		st.assume(Neq(r, f.ref))
	}
	st.fresh = append(st.fresh, freshObj{r, typeKey})
	// non-struct objects (arrays, maps, channels, errors) get a dynamic type tag of their own,
	// so that quantifiers over struct pointers do not range over them
	if strings.HasPrefix(typeKey, "[") || strings.HasPrefix(typeKey, "map[") || strings.HasPrefix(typeKey, "chan") || typeKey == "error" {
		st.assume(Eq(ex.dtype(r), ex.typeTagKey("obj "+typeKey)))
	}
	return r
}

// ---------- value construction ----------

func (ex *Exec) buildVal(t types.Type, prefix string, get func(l Leaf) *Term) *Val {
	t = ex.env.resolve(t)
	if _, ok := isSeqType(t); ok {
		l := ex.env.leaves(t)[0]
		l.Path = prefix
		return scalar(get(l))
	}
	if isOpaqueNamed(t) {
		ls := ex.env.leaves(t)
		l := ls[0]
		l.Path = prefix
		return scalar(get(l))
	}
	switch tt := t.Underlying().(type) {
	case *types.Slice:
		ls := ex.env.leaves(t)
		var ts [4]*Term
		for i, l := range ls {
			l.Path = prefix + l.Path
			ts[i] = get(l)
		}
		return &Val{Sl: &SliceV{Arr: ts[0], Off: ts[1], Len: ts[2], Cap: ts[3]}}
	case *types.Struct:
		v := &Val{Fs: make([]*Val, tt.NumFields())}
		for i := 0; i < tt.NumFields(); i++ {
			f := tt.Field(i)
			v.Fs[i] = ex.buildVal(f.Type(), prefix+"."+f.Name(), get)
		}
		if tt.NumFields() == 0 {
			v.Fs = []*Val{}
		}
		return v
	case *types.Array:
		return &Val{Fs: []*Val{}}
	case *types.Tuple:
		v := &Val{Fs: make([]*Val, tt.Len())}
		for i := 0; i < tt.Len(); i++ {
			v.Fs[i] = ex.buildVal(tt.At(i).Type(), fmt.Sprintf("%s.%d", prefix, i), get)
		}
		return v
	}
	ls := ex.env.leaves(t)
	if len(ls) != 1 {
		panic(oos("buildVal: " + t.String()))
	}
	l := ls[0]
	l.Path = prefix
	return scalar(get(l))
}

// flatten walks a value and its type in parallel, calling put for every leaf.
func (ex *Exec) flatten(t types.Type, v *Val, prefix string, put func(l Leaf, t *Term)) {
	t = ex.env.resolve(t)
	if v == nil {
		panic(oos("flatten nil value of type " + t.String()))
	}
	if _, ok := isSeqType(t); ok {
		l := ex.env.leaves(t)[0]
		l.Path = prefix
		put(l, v.T)
		return
	}
	if isOpaqueNamed(t) {
		l := ex.env.leaves(t)[0]
		l.Path = prefix
		put(l, ex.valTerm(v))
		return
	}
	switch tt := t.Underlying().(type) {
	case *types.Slice:
		ls := ex.env.leaves(t)
		if v.Sl == nil {
			panic(oos("flatten: not a slice value for " + t.String()))
		}
		ts := []*Term{v.Sl.Arr, v.Sl.Off, v.Sl.Len, v.Sl.Cap}
		for i, l := range ls {
			l.Path = prefix + l.Path
			put(l, ts[i])
		}
		return
	case *types.Struct:
		if len(v.Fs) != tt.NumFields() {
			if os.Getenv("GOCV_DEBUG") != "" {
				debug.PrintStack()
			}
			panic(oos(fmt.Sprintf("flatten: struct value mismatch for %s: %v", t, v)))
		}
		for i := 0; i < tt.NumFields(); i++ {
			f := tt.Field(i)
			ex.flatten(f.Type(), v.Fs[i], prefix+"."+f.Name(), put)
		}
		return
	case *types.Array:
		return
	case *types.Tuple:
		for i := 0; i < tt.Len(); i++ {
			ex.flatten(tt.At(i).Type(), v.Fs[i], fmt.Sprintf("%s.%d", prefix, i), put)
		}
		return
	}
	ls := ex.env.leaves(t)
	l := ls[0]
	l.Path = prefix
	put(l, ex.valTerm(v))
}

// valTerm returns the SMT term of a scalar value (pointers become Refs).
func (ex *Exec) valTerm(v *Val) *Term {
	if v.T != nil {
		return v.T
	}
	if v.Loc != nil {
		if v.Loc.Kind == LHeap && v.Loc.PathS == "" {
			return v.Loc.Ref
		}
		if os.Getenv("GOCV_DEBUG") != "" {
			debug.PrintStack()
		}
		panic(oos("interior or local pointer used as a value (" + v.Loc.PathS + ")"))
	}
	if v.Fn != nil {
		// function value as opaque non-nil constant
		c := ex.env.d.Const(symSafe("fn "+funcKey(v.Fn)), SRef)
		ex.addAxiom(Gt(c, IntLit(0)))
		return c
	}
	panic(oos("valTerm of composite value " + v.String()))
}

func (ex *Exec) zeroVal(t types.Type) *Val {
	return ex.buildVal(t, "", func(l Leaf) *Term {
		if l.Role == "arr" {
			return IntLit(0)
		}
		return ex.env.zeroLeaf(l)
	})
}

func (ex *Exec) freshVal(t types.Type, name string) *Val {
	return ex.buildVal(t, "", func(l Leaf) *Term {
		return ex.fresh(name+l.Path, l.Sort)
	})
}

func (ex *Exec) namedVal(t types.Type, name string) *Val {
	return ex.buildVal(t, "", func(l Leaf) *Term {
		return ex.env.d.Const(symSafe(name+l.Path), l.Sort)
	})
}

const maxSliceLen = int64(1) << 47

func (ex *Exec) intConst(v int64) *Term {
	if ex.env.mode == ModeBV {
		return BVLit(big.NewInt(v), 64)
	}
	return IntLit(v)
}

// typeInv returns the well-typedness facts of a value: integer ranges,
// slice header sanity, references allocated (w.r.t. the given alloc array).
func (ex *Exec) typeInv(t types.Type, v *Val, alloc *Term) *Term {
	var cs []*Term
	ex.flatten(t, v, "", func(l Leaf, tm *Term) {
		switch l.Role {
		case "off", "len", "cap", "arr":
			return
		}
		if l.Sort == SInt && l.Type != nil {
			if w, signed, ok := intInfo(ex.env.resolve(l.Type)); ok && tm.Sort == SInt {
				lo, hi := intRange(w, signed)
				cs = append(cs, Le(IntLitBig(lo), tm), Le(tm, IntLitBig(hi)))
				noteBounds(tm, lo, hi)
				return
			}
			if isRefType(ex.env.resolve(l.Type)) && alloc != nil {
				cs = append(cs, Or(Eq(tm, IntLit(0)), And(Gt(tm, IntLit(0)), Select(alloc, tm))))
			}
			if pt := ex.structPtr(l.Type); pt != nil {
				cs = append(cs, Or(Eq(tm, IntLit(0)), Eq(ex.dtype(tm), ex.typeTag(pt))))
			}
			// a non-nil value of a (non-empty) interface type has a dynamic type implementing it
			if rt := ex.env.resolve(l.Type); rt != nil {
				if it, ok := rt.Underlying().(*types.Interface); ok && it.NumMethods() > 0 {
					if _, isTP := rt.(*types.TypeParam); !isTP {
						f := ex.env.d.Func(symSafe("implements "+ex.env.typeKey(rt)), SBool, SInt)
						cs = append(cs, Or(Eq(tm, IntLit(0)), ex.env.d.Apply(f.Name, ex.dtype(tm))))
					}
				}
			}
		}
		if l.Type != nil {
			if b, ok := ex.env.resolve(l.Type).Underlying().(*types.Basic); ok && b.Kind() == types.String {
				cs = append(cs, ex.strLenFacts(tm))
			}
		}
	})
	ex.walkSlices(t, v, func(sl *SliceV) {
		cs = append(cs, ex.sliceWF(sl, alloc))
	})
	return And(cs...)
}

func isRefType(t types.Type) bool {
	switch t.Underlying().(type) {
	case *types.Pointer, *types.Map, *types.Chan, *types.Interface, *types.Signature:
		return true
	}
	return false
}

func (ex *Exec) walkSlices(t types.Type, v *Val, f func(sl *SliceV)) {
	t = ex.env.resolve(t)
	if isOpaqueNamed(t) {
		return
	}
	if _, ok := isSeqType(t); ok {
		return
	}
	switch tt := t.Underlying().(type) {
	case *types.Slice:
		if v.Sl != nil {
			f(v.Sl)
		}
	case *types.Struct:
		for i := 0; i < tt.NumFields(); i++ {
			if i < len(v.Fs) {
				ex.walkSlices(tt.Field(i).Type(), v.Fs[i], f)
			}
		}
	case *types.Tuple:
		for i := 0; i < tt.Len(); i++ {
			ex.walkSlices(tt.At(i).Type(), v.Fs[i], f)
		}
	}
}

func (ex *Exec) sliceWF(sl *SliceV, alloc *Term) *Term {
	for _, t := range []*Term{sl.Off, sl.Len, sl.Cap} {
		noteBounds(t, big.NewInt(0), big.NewInt(maxSliceLen))
	}
	z := ex.intConst(0)
	mx := ex.intConst(maxSliceLen)
	le := ex.sle
	cs := []*Term{
		le(z, sl.Off), le(z, sl.Len), le(sl.Len, sl.Cap), le(sl.Cap, mx), le(sl.Off, mx),
		Implies(Eq(sl.Arr, IntLit(0)), And(Eq(sl.Cap, z), Eq(sl.Off, z))),
	}
	if alloc != nil {
		// negative references denote embedded arrays and string storage
		cs = append(cs, Or(Le(sl.Arr, IntLit(0)), Select(alloc, sl.Arr)))
	}
	return And(cs...)
}

// signed <= in the current integer sort
func (ex *Exec) sle(a, b *Term) *Term {
	if a.Sort.IsBV() {
		return App("bvsle", SBool, a, b)
	}
	return Le(a, b)
}
func (ex *Exec) slt(a, b *Term) *Term {
	if a.Sort.IsBV() {
		return App("bvslt", SBool, a, b)
	}
	return Lt(a, b)
}
func (ex *Exec) iadd(a, b *Term) *Term {
	if a.Sort.IsBV() {
		if b.IsLit() && b.IntVal.Sign() == 0 {
			return a
		}
		if a.IsLit() && a.IntVal.Sign() == 0 {
			return b
		}
		return App("bvadd", a.Sort, a, b)
	}
	return Add(a, b)
}
func (ex *Exec) isub(a, b *Term) *Term {
	if a.Sort.IsBV() {
		if b.IsLit() && b.IntVal.Sign() == 0 {
			return a
		}
		return App("bvsub", a.Sort, a, b)
	}
	return Sub(a, b)
}

// ---------- strings ----------

func (ex *Exec) strSort() Sort { return ex.env.d.Sort("GoString") }

func (ex *Exec) strLenFn() string {
	if _, ok := ex.env.d.Funcs["strlen"]; !ok {
		ex.env.d.Func("strlen", ex.env.IntS(), ex.strSort())
		x := Sym("s!sl", ex.strSort())
		l := App("strlen", ex.env.IntS(), x)
		ex.addAxiom(Forall([]*Term{x}, And(ex.sle(ex.intConst(0), l), ex.sle(l, ex.intConst(maxSliceLen))), []*Term{l}))
	}
	return "strlen"
}

func (ex *Exec) strLen(s *Term) *Term {
	return ex.env.d.Apply(ex.strLenFn(), s)
}

func (ex *Exec) strLenFacts(s *Term) *Term {
	l := ex.strLen(s)
	return And(ex.sle(ex.intConst(0), l), ex.sle(l, ex.intConst(maxSliceLen)))
}

// strCat: concatenation of strings, an uninterpreted function with its length and character axioms, and the
// axioms that relate it to substr (s[lo:hi]): the second operand is the tail, a slice of a slice is a slice,
// the full slice is the string.
func (ex *Exec) strCat(a, b *Term) *Term {
	ss, is := ex.strSort(), ex.env.IntS()
	if _, ok := ex.env.d.Funcs["strcat"]; !ok {
		ex.env.d.Func("strcat", ss, ss, ss)
		sub := ex.env.d.Func("substr", ss, ss, is, is)
		at := ex.env.d.Func("str_at", SBV8, ss, is)
		x, y := Sym("a!sc", ss), Sym("b!sc", ss)
		i, lo, hi, c, d := Sym("i!sc", is), Sym("lo!sc", is), Sym("hi!sc", is), Sym("c!sc", is), Sym("d!sc", is)
		cat := App("strcat", ss, x, y)
		lx, ly := ex.strLen(x), ex.strLen(y)
		z := ex.intConst(0)
		ex.addAxiom(Forall([]*Term{x, y}, Eq(ex.strLen(cat), ex.iadd(lx, ly)), []*Term{cat}))
		cati := ex.env.d.Apply(at.Name, cat, i)
		ex.addAxiom(Forall([]*Term{x, y, i}, And(
			Implies(And(ex.sle(z, i), ex.slt(i, lx)), Eq(cati, ex.env.d.Apply(at.Name, x, i))),
			Implies(And(ex.sle(lx, i), ex.slt(i, ex.iadd(lx, ly))), Eq(cati, ex.env.d.Apply(at.Name, y, ex.isub(i, lx))))), []*Term{cati}))
		tail := ex.env.d.Apply(sub.Name, cat, lo, hi)
		ex.addAxiom(Forall([]*Term{x, y, lo, hi}, Implies(And(Eq(lo, lx), Eq(hi, ex.iadd(lx, ly))), Eq(tail, y)), []*Term{tail}))
		full := ex.env.d.Apply(sub.Name, x, z, hi)
		ex.addAxiom(Forall([]*Term{x, hi}, Implies(Eq(hi, lx), Eq(full, x)), []*Term{full}))
		inner := ex.env.d.Apply(sub.Name, x, lo, hi)
		// length and characters of a slice
		inRange := And(ex.sle(z, lo), ex.sle(lo, hi), ex.sle(hi, lx))
		ex.addAxiom(Forall([]*Term{x, lo, hi}, Implies(inRange, Eq(ex.strLen(inner), ex.isub(hi, lo))), []*Term{inner}))
		inneri := ex.env.d.Apply(at.Name, inner, i)
		ex.addAxiom(Forall([]*Term{x, lo, hi, i}, Implies(And(inRange, ex.sle(z, i), ex.slt(i, ex.isub(hi, lo))), Eq(inneri, ex.env.d.Apply(at.Name, x, ex.iadd(lo, i)))), []*Term{inneri}))
		outer := ex.env.d.Apply(sub.Name, inner, c, d)
		ex.addAxiom(Forall([]*Term{x, lo, hi, c, d}, Implies(And(ex.sle(z, lo), ex.sle(lo, hi), ex.sle(hi, lx), ex.sle(z, c), ex.sle(c, d), ex.sle(d, ex.isub(hi, lo))),
			Eq(outer, ex.env.d.Apply(sub.Name, x, ex.iadd(lo, c), ex.iadd(lo, d)))), []*Term{outer}))
		ex.trusted["string concatenation and slicing: strcat/substr are uninterpreted functions with length, character, tail, full-slice and slice-of-slice axioms"] = true
	}
	return App("strcat", ss, a, b)
}

func (ex *Exec) strConst(s string) *Term {
	if t, ok := ex.strs[s]; ok {
		return t
	}
	name := fmt.Sprintf("str!%d", len(ex.strs))
	t := ex.env.d.Const(name, ex.strSort())
	// distinct from the other constants, known length
	for o, ot := range ex.strs {
		if o != s {
			ex.addAxiom(Neq(t, ot))
		}
	}
	ex.strs[s] = t
	ex.addAxiom(Eq(ex.strLen(t), ex.intConst(int64(len(s)))))
	if s == "" {
		// the empty string is the only string of length 0
		x := Sym("sx!e", ex.strSort())
		ex.addAxiom(Forall([]*Term{x}, Implies(Eq(ex.strLen(x), ex.intConst(0)), Eq(x, t))))
		// ... and it is the zero value of the string type
		ex.addAxiom(Eq(t, ex.env.zeroLeaf(Leaf{Sort: ex.strSort()})))
	}
	return t
}

// ---------- locations ----------

func (ex *Exec) loadLoc(st *State, loc *Loc) *Val {
	if loc.Dummy {
		return ex.freshVal(loc.Type, "opaque_field")
	}
	switch loc.Kind {
	case LCell:
		v, ok := st.cells[loc.Cell]
		if !ok {
			panic(oos("read of uninitialised cell " + loc.Cell.Comment))
		}
		for _, i := range loc.PathI {
			if i >= len(v.Fs) {
				panic(oos("cell path"))
			}
			v = v.Fs[i]
		}
		return v
	case LHeap:
		return ex.buildVal(loc.Type, loc.PathS, func(l Leaf) *Term {
			ex.closedHeap(loc.Base, l)
			return Select(ex.fieldArr(st, loc.Base, l.Path, l.Sort), loc.Ref)
		})
	case LElem:
		return ex.buildVal(loc.Type, loc.PathS, func(l Leaf) *Term {
			return Select(Select(ex.elemArr(st, loc.Base, l.Path, l.Sort), loc.Arr), loc.Idx)
		})
	case LGlobal:
		return ex.readGlobal(st, loc)
	}
	panic("bad loc")
}

func (ex *Exec) storeLoc(st *State, loc *Loc, v *Val) {
	if loc.Dummy {
		return
	}
	switch loc.Kind {
	case LCell:
		if len(loc.PathI) == 0 {
			st.cells[loc.Cell] = v
			return
		}
		root := st.cells[loc.Cell]
		st.cells[loc.Cell] = updatePath(root, loc.PathI, v)
	case LHeap:
		ex.flatten(loc.Type, v, loc.PathS, func(l Leaf, t *Term) {
			key := ex.fieldKey(loc.Base, l.Path)
			arr := ex.heapGet(st, key, ArraySort(SRef, l.Sort))
			st.heap[key] = Store(arr, loc.Ref, t)
		})
	case LElem:
		ex.flatten(loc.Type, v, loc.PathS, func(l Leaf, t *Term) {
			key := ex.elemKey(loc.Base, l.Path)
			arr := ex.heapGet(st, key, ArraySort(SRef, ArraySort(ex.env.IntS(), l.Sort)))
			st.heap[key] = Store(arr, loc.Arr, Store(Select(arr, loc.Arr), loc.Idx, t))
		})
	case LGlobal:
		ex.storeGlobal(st, loc, v)
	}
}

func updatePath(root *Val, path []int, v *Val) *Val {
	if len(path) == 0 {
		return v
	}
	n := &Val{Fs: append([]*Val(nil), root.Fs...)}
	n.Fs[path[0]] = updatePath(root.Fs[path[0]], path[1:], v)
	return n
}

// ptrLoc converts a pointer value into a location of content type elem.
func (ex *Exec) ptrLoc(v *Val, elem types.Type) *Loc {
	if v.Loc != nil {
		return v.Loc
	}
	if v.T != nil {
		return &Loc{Kind: LHeap, Ref: v.T, Base: ex.env.resolve(elem), Type: elem}
	}
	panic(oos("pointer value expected"))
}

func (ex *Exec) globalKey(g *ssa.Global) string {
	return "G " + g.Pkg.Pkg.Path() + "." + g.Name()
}

func (ex *Exec) loadGlobal(st *State, loc *Loc) *Val {
	g := loc.Global
	v := ex.buildVal(loc.Type, loc.PathS, func(l Leaf) *Term {
		key := ex.globalKey(g) + " " + l.Path
		return ex.heapGet(st, key, l.Sort)
	})
	return v
}

func (ex *Exec) storeGlobal(st *State, loc *Loc, v *Val) {
	g := loc.Global
	ex.flatten(loc.Type, v, loc.PathS, func(l Leaf, t *Term) {
		st.heap[ex.globalKey(g)+" "+l.Path] = t
	})
}

// closedHeap adds, once per reference-typed field, the typing axiom of the
// initial heap: reference fields of allocated objects hold nil or allocated
// (or embedded/negative) references, and objects that are not yet allocated
// have nil reference fields (allocation zero-initialises).
func (ex *Exec) closedHeap(base types.Type, l Leaf) {
	if l.Sort != SRef || l.Type == nil {
		return
	}
	rt := ex.env.resolve(l.Type)
	isRef := isRefType(rt)
	if b, ok := rt.Underlying().(*types.Basic); ok && b.Kind() == types.UnsafePointer {
		isRef = true
	}
	if l.Role == "arr" {
		isRef = false
	}
	if !isRef {
		return
	}
	key := ex.fieldKey(base, l.Path)
	h0 := ex.heap0(key, ArraySort(SRef, SRef))
	al := ex.heap0("alloc", ArraySort(SRef, SBool))
	x := Sym("x!ch", SRef)
	v := Select(h0, x)
	body := Implies(Select(al, x), Or(Le(v, IntLit(0)), Select(al, v)))
	if pt := ex.structPtr(l.Type); pt != nil {
		body = And(body, Or(Eq(v, IntLit(0)), Eq(ex.dtype(v), ex.typeTag(pt))))
	}
	ex.addAxiom(Forall([]*Term{x}, body, []*Term{v}))
}

// structPtr returns the (resolved) type if it is a pointer to a named struct type.
func (ex *Exec) structPtr(t types.Type) types.Type {
	if t == nil {
		return nil
	}
	rt := ex.env.resolve(t)
	p, ok := rt.Underlying().(*types.Pointer)
	if !ok {
		return nil
	}
	el := ex.env.resolve(p.Elem())
	if _, ok := el.Underlying().(*types.Struct); !ok || isOpaqueNamed(el) {
		return nil
	}
	if _, ok := types.Unalias(el).(*types.Named); !ok {
		return nil
	}
	return rt
}
